// cfgdiff: operation scripts on BD_Shape<mpz_class> / Octagonal_Shape<mpz_class>.
// The matrix entries are unbounded in every configuration; everything that
// enters or leaves the shape (constraints, generators, affine forms,
// conversions to/from polyhedra) goes through Coefficient arithmetic.
#ifndef CFGDIFF_SHAPE_HH
#define CFGDIFF_SHAPE_HH
#include "cfgdiff.hh"

namespace cfg {

template <typename SH, bool OCT>
struct Shape_Script : public Script {
  static const int NP = 3;
  int n; std::unique_ptr<SH> pool[NP]; bool fresh[NP];
  Shape_Script() { n = rnd(1, G().maxdim); reset(); }
  const char* domain() const { return OCT ? "oct" : "bds"; }
  void reset() { for (int i = 0; i < NP; ++i) { pool[i].reset(); pool[i].reset(new SH(n, UNIVERSE)); fresh[i] = true; } }

  // a constraint the domain accepts in add_constraint: (+-a) x_i (+-a) x_j + b rel 0
  RawCon shaped_con() {
    RawCon c; c.a.assign(n, 0); c.b = coin(45) ? rc() : rc_big(); int k = rnd(0, 6); c.rel = k < 5 ? 1 : 0;
    long a = coin(60) ? (coin() ? 1 : -1) : (coin(80) ? rc_small_nz() : rc_nz());
    int i = rnd(0, n - 1); c.a[i] = a;
    if (n > 1 && coin(65)) { int j = rnd(0, n - 2); if (j >= i) ++j; long neg = (a == -G().lim - 1) ? G().lim : -a; c.a[j] = (OCT && coin()) ? a : neg; }
    return c;
  }
  std::vector<RawCon> shaped_cs(int lo, int hi, std::string& t) { std::vector<RawCon> v; int k = rnd(lo, hi); for (int i = 0; i < k; ++i) { v.push_back(shaped_con()); t += (i ? ", " : "") + show(v.back()); } return v; }
  std::vector<RawCon> any_cs(int lo, int hi, std::string& t) { std::vector<RawCon> v; int k = rnd(lo, hi); for (int i = 0; i < k; ++i) { v.push_back(coin() ? shaped_con() : raw_con(n, false)); t += (i ? ", " : "") + show(v.back()); } return v; }
  Generator raw_gen(int kind, std::string& text) {
    std::vector<long> a = raw_vec(n, 30);
    if (kind >= 2) { bool z = true; for (int i = 0; i < n; ++i) if (a[i]) z = false; if (z) a[rnd(0, n - 1)] = rc_small_nz(); }
    long d = coin(65) ? 1 : (long) rnd(1, (int) G().small + 1);
    static const char* const nm[4] = { "point", "closure_point", "ray", "line" };
    text += std::string(nm[kind]) + "(" + show(a, 0) + (kind < 2 ? "," + std::to_string(d) : "") + ")";
    Linear_Expression e = le(a, 0, n);
    switch (kind) { case 0: return point(e, Coefficient(d)); case 1: return closure_point(e, Coefficient(d)); case 2: return ray(e); default: return line(e); }
  }
  int gen_kind() { int k = rnd(0, 9); return k < 6 ? 0 : k < 8 ? 2 : 3; }
  Variables_Set rand_vars(std::string& text, int avoid = -1) {
    Variables_Set vs;
    for (int i = 0; i < n; ++i) if (i != avoid && coin(45)) { vs.insert(Variable(i)); text += (char) ('A' + i); }
    if (vs.empty()) { int i = rnd(0, n - 1); if (i == avoid) i = (i + 1) % n; if (i != avoid) { vs.insert(Variable(i)); text += (char) ('A' + i); } }
    return vs;
  }

  enum Op { BUILD_CS, BUILD_PH, BUILD_GS, ADD_CON, ADD_CONS, REFINE_CON, REFINE_CG, MEET, JOIN, JOIN_EXACT, INT_JOIN_EXACT, DIFF, TIME_ELAPSE,
            AFF_IMG, AFF_PRE, GEN_IMG, GEN_PRE, GEN_IMG_LR, GEN_PRE_LR, BND_IMG, BND_PRE, WIDEN, LIMITED, NARROW, SIMPLIFY, UNCONSTRAIN, DIMS,
            QUERY_REL, QUERY_OPT, QUERY_PRED, QUERY_BIN, MINIMIZE, COPYOPS, WRAP, DROP_NONINT, TO_POLY, NOPS };
  int pick() {
    static const int W[NOPS] = { 5, 4, 3, 8, 4, 5, 2, 6, 6, 2, 2, 3, 2,
                                 9, 7, 5, 4, 4, 3, 4, 3, 4, 3, 2, 2, 2, 5,
                                 5, 5, 3, 3, 3, 2, 2, 2, 4 };
    int tot = 0; for (int i = 0; i < NOPS; ++i) tot += W[i];
    int k = rnd(0, tot - 1);
    for (int i = 0; i < NOPS; ++i) { if (k < W[i]) return i; k -= W[i]; }
    return 0;
  }

  void step(Step_Context& ctx, Items& out) {
    int ai = rnd(0, NP - 1), bi = rnd(0, NP - 1); if (bi == ai) bi = (ai + 1) % NP;
    int op = pick(); if (fresh[ai]) { int k = rnd(0, 9); op = k < 5 ? BUILD_CS : k < 8 ? BUILD_PH : BUILD_GS; }
    SH& A = *pool[ai]; SH& B = *pool[bi];
    std::string ra = "#" + std::to_string(ai), rb = "#" + std::to_string(bi), t;
    switch (op) {
    case BUILD_CS: { std::vector<RawCon> v = shaped_cs(1, n + 2, t); ctx.begin("build_cs", ra + "=SH{" + t + "}"); fresh[ai] = false; pool[ai].reset(new SH(cons(v, n))); out.push_back(obs_cons_only(*pool[ai])); break; }
    case BUILD_PH: {
      std::vector<RawCon> v = any_cs(1, n + 2, t); int cc = rnd(0, 2);
      ctx.begin("build_from_polyhedron", ra + "=SH(C_Polyhedron{" + t + "}, " + (cc == 0 ? "POLY" : cc == 1 ? "SIMPLEX" : "ANY") + ")"); fresh[ai] = false;
      C_Polyhedron ph(cons(v, n)); pool[ai].reset(new SH(ph, cc == 0 ? POLYNOMIAL_COMPLEXITY : cc == 1 ? SIMPLEX_COMPLEXITY : ANY_COMPLEXITY)); out.push_back(obs_cons_only(*pool[ai])); break; }
    case BUILD_GS: {
      ctx.begin("build_gs", ra + "=SH(gs)"); fresh[ai] = false;
      Generator_System gs; int np = rnd(1, 3), nr = rnd(0, 2);
      gs.insert(raw_gen(0, t)); for (int i = 1; i < np; ++i) { t += ","; gs.insert(raw_gen(0, t)); }
      for (int i = 0; i < nr; ++i) { t += ","; gs.insert(raw_gen(coin(70) ? 2 : 3, t)); }
      hx::tr("{" + t + "}");
      pool[ai].reset(new SH(gs)); out.push_back(obs_cons_only(*pool[ai])); break; }
    case ADD_CON: { RawCon c = shaped_con(); ctx.begin("add_constraint", ra + ".add_constraint(" + show(c) + ")"); A.add_constraint(con(c, n)); out.push_back(obs_cons_only(A)); break; }
    case ADD_CONS: { std::vector<RawCon> v = shaped_cs(2, 3, t); ctx.begin("add_constraints", ra + ".add_constraints{" + t + "}"); A.add_constraints(cons(v, n)); out.push_back(obs_cons_only(A)); break; }
    case REFINE_CON: { RawCon c = raw_con(n, true); ctx.begin("refine_with_constraint", ra + ".refine_with_constraint(" + show(c) + ")"); A.refine_with_constraint(con(c, n)); out.push_back(obs_cons_only(A)); break; }
    case REFINE_CG: { std::vector<long> a = raw_vec(n); long b = rc(); long m = coin(60) ? 0 : (long) rnd(1, (int) G().small + 1);
      ctx.begin("refine_with_congruence", ra + ".refine_with_congruence(" + show(a, b) + " =0 mod " + std::to_string(m) + ")");
      A.refine_with_congruence((le(a, b, n) %= 0) / Coefficient(m)); out.push_back(obs_cons_only(A)); break; }
    case MEET: ctx.begin("intersection_assign", ra + ".intersection_assign(" + rb + ")"); A.intersection_assign(B); out.push_back(obs_cons_only(A)); break;
    case JOIN: ctx.begin("upper_bound_assign", ra + ".upper_bound_assign(" + rb + ")"); A.upper_bound_assign(B); out.push_back(obs_cons_only(A)); break;
    case JOIN_EXACT: { ctx.begin("upper_bound_assign_if_exact", ra + ".upper_bound_assign_if_exact(" + rb + ")"); bool r = A.upper_bound_assign_if_exact(B); out.push_back(val("exact", r)); out.push_back(obs_cons_only(A)); break; }
    case INT_JOIN_EXACT: { ctx.begin("integer_upper_bound_assign_if_exact", ra + ".integer_upper_bound_assign_if_exact(" + rb + ")"); bool r = A.integer_upper_bound_assign_if_exact(B); out.push_back(val("exact", r)); out.push_back(obs_cons_only(A)); break; }
    case DIFF: ctx.begin("difference_assign", ra + ".difference_assign(" + rb + ")"); A.difference_assign(B); out.push_back(obs_cons_only(A)); break;
    case TIME_ELAPSE: ctx.begin("time_elapse_assign", ra + ".time_elapse_assign(" + rb + ")"); A.time_elapse_assign(B); out.push_back(obs_cons_only(A)); break;
    case AFF_IMG: case AFF_PRE: {
      int k = rnd(0, n - 1); std::vector<long> a = raw_vec(n, 40); long b = coin(50) ? rc() : rc_big(); long d = coin(70) ? rc_small_nz() : rc_nz();
      const char* nm = op == AFF_IMG ? "affine_image" : "affine_preimage";
      ctx.begin(nm, ra + "." + nm + "(" + (char) ('A' + k) + ", " + show(a, b) + ", " + std::to_string(d) + ")");
      if (op == AFF_IMG) A.affine_image(Variable(k), le(a, b, n), Coefficient(d)); else A.affine_preimage(Variable(k), le(a, b, n), Coefficient(d));
      out.push_back(obs_cons_only(A)); break; }
    case GEN_IMG: case GEN_PRE: {
      int k = rnd(0, n - 1); int r = 1 + rnd(0, 2); std::vector<long> a = raw_vec(n, 40); long b = coin(60) ? rc() : rc_big(); long d = coin(70) ? rc_small_nz() : rc_nz();
      const char* nm = op == GEN_IMG ? "generalized_affine_image" : "generalized_affine_preimage";
      ctx.begin(nm, ra + "." + nm + "(" + (char) ('A' + k) + " " + RELSS[r] + " (" + show(a, b) + ")/" + std::to_string(d) + ")");
      if (op == GEN_IMG) A.generalized_affine_image(Variable(k), RELS[r], le(a, b, n), Coefficient(d)); else A.generalized_affine_preimage(Variable(k), RELS[r], le(a, b, n), Coefficient(d));
      out.push_back(obs_cons_only(A)); break; }
    case GEN_IMG_LR: case GEN_PRE_LR: {
      int r = 1 + rnd(0, 2); std::vector<long> l = raw_vec(n, 55), a = raw_vec(n, 40); long lb = rc(), b = rc();
      const char* nm = op == GEN_IMG_LR ? "generalized_affine_image_lr" : "generalized_affine_preimage_lr";
      ctx.begin(nm, ra + "." + nm + "(" + show(l, lb) + " " + RELSS[r] + " " + show(a, b) + ")");
      if (op == GEN_IMG_LR) A.generalized_affine_image(le(l, lb, n), RELS[r], le(a, b, n)); else A.generalized_affine_preimage(le(l, lb, n), RELS[r], le(a, b, n));
      out.push_back(obs_cons_only(A)); break; }
    case BND_IMG: case BND_PRE: {
      int k = rnd(0, n - 1); std::vector<long> l = raw_vec(n, 45), u = raw_vec(n, 45); long lb = coin(60) ? rc() : rc_big(), ub = coin(60) ? rc() : rc_big(); long d = coin(70) ? rc_small_nz() : rc_nz();
      const char* nm = op == BND_IMG ? "bounded_affine_image" : "bounded_affine_preimage";
      ctx.begin(nm, ra + "." + nm + "(" + (char) ('A' + k) + ", " + show(l, lb) + ", " + show(u, ub) + ", " + std::to_string(d) + ")");
      if (op == BND_IMG) A.bounded_affine_image(Variable(k), le(l, lb, n), le(u, ub, n), Coefficient(d)); else A.bounded_affine_preimage(Variable(k), le(l, lb, n), le(u, ub, n), Coefficient(d));
      out.push_back(obs_cons_only(A)); break; }
    case WIDEN: {
      int k = rnd(0, 1); unsigned tokens = rnd(0, 1); bool use_tp = coin(30);
      static const char* const nm[2] = { "CC76_extrapolation_assign", "BHMZ05_widening_assign" };
      ctx.begin(nm[k], ra + ".upper_bound_assign(" + rb + ");" + ra + "." + nm[k] + "(" + rb + (use_tp ? ", tp=" + std::to_string(tokens) : "") + ")");
      A.upper_bound_assign(B);
      if (k == 0) A.CC76_extrapolation_assign(B, use_tp ? &tokens : 0); else A.BHMZ05_widening_assign(B, use_tp ? &tokens : 0);
      out.push_back(obs_cons_only(A)); if (use_tp) out.push_back(val("tokens", ZZ(tokens))); break; }
    case LIMITED: {
      int k = rnd(0, 1); std::vector<RawCon> v = any_cs(1, 3, t);
      // History: a constraint without variables (e.g. `-3 == 0`) in cs made BD_Shape::get_limiting_shape index dbm[space_dim + 1]
      // (heap-buffer-overflow in every configuration; repaired in /repo by "fix: limited extrapolations on BD shapes and octagons
      // indexed the matrix with a variable-free limiting constraint").  --kv trivlim=0 keeps such rows out again.
      if (!hx::opt().geti("trivlim", 1)) { t.clear(); for (size_t i = 0; i < v.size(); ++i) { bool z = true; for (int d = 0; d < n; ++d) if (v[i].a[d]) z = false; if (z) v[i].a[rnd(0, n - 1)] = 1; t += (i ? ", " : "") + show(v[i]); } }
      static const char* const nm[2] = { "limited_CC76_extrapolation_assign", "limited_BHMZ05_extrapolation_assign" };
      ctx.begin(nm[k], ra + ".upper_bound_assign(" + rb + ");" + ra + "." + nm[k] + "(" + rb + ", {" + t + "})");
      A.upper_bound_assign(B); Constraint_System cs = cons(v, n);
      if (k == 0) A.limited_CC76_extrapolation_assign(B, cs); else A.limited_BHMZ05_extrapolation_assign(B, cs);
      out.push_back(obs_cons_only(A)); break; }
    case NARROW: {
      ctx.begin("CC76_narrowing_assign", "y=copy(" + rb + ");y.upper_bound_assign(" + ra + ");" + ra + ".CC76_narrowing_assign(y)");
      SH y(B); y.upper_bound_assign(A); A.CC76_narrowing_assign(y); out.push_back(obs_cons_only(A)); break; }
    case SIMPLIFY: {
      // History: Octagonal_Shape<integer T>::simplify_using_context_assign reached its final PPL_UNREACHABLE in every configuration
      // (x = {B >= 2}, y = {A <= -1, 2B >= 3}); repaired in /repo.  --kv octsimplify=0 skips the operation for octagons again.
      if (OCT && !hx::opt().geti("octsimplify", 1)) { ctx.begin("contains", ra + ".contains(" + rb + ")"); out.push_back(val("contains", A.contains(B))); break; }
      ctx.begin("simplify_using_context_assign", ra + ".simplify_using_context_assign(" + rb + ")"); bool r = A.simplify_using_context_assign(B); out.push_back(val("nonempty_meet", r)); out.push_back(obs_cons_only(A)); break; }
    case UNCONSTRAIN: { Variables_Set vs = rand_vars(t); ctx.begin("unconstrain", ra + ".unconstrain{" + t + "}"); if (vs.size() == 1 && coin()) A.unconstrain(Variable(*vs.begin())); else A.unconstrain(vs); out.push_back(obs_cons_only(A)); break; }
    case DIMS: {
      int k = rnd(0, 7); if (n < 2 && k == 5) k = 0;
      SH T(A);
      switch (k) {
      case 0: { int m = rnd(1, 2); ctx.begin("add_space_dimensions_and_embed", "copy(" + ra + ").add_space_dimensions_and_embed(" + std::to_string(m) + ")"); T.add_space_dimensions_and_embed(m); break; }
      case 1: { int m = rnd(1, 2); ctx.begin("add_space_dimensions_and_project", "copy(" + ra + ").add_space_dimensions_and_project(" + std::to_string(m) + ")"); T.add_space_dimensions_and_project(m); break; }
      case 2: { Variables_Set vs = rand_vars(t); ctx.begin("remove_space_dimensions", "copy(" + ra + ").remove_space_dimensions{" + t + "}"); T.remove_space_dimensions(vs); break; }
      case 3: { int m = rnd(0, n); ctx.begin("remove_higher_space_dimensions", "copy(" + ra + ").remove_higher_space_dimensions(" + std::to_string(m) + ")"); T.remove_higher_space_dimensions(m); break; }
      case 4: { Partial_Map pm = rand_map(n, t); ctx.begin("map_space_dimensions", "copy(" + ra + ").map_space_dimensions{" + t + "}"); T.map_space_dimensions(pm); break; }
      case 5: { int d = rnd(0, n - 1); Variables_Set vs = rand_vars(t, d); ctx.begin("fold_space_dimensions", "copy(" + ra + ").fold_space_dimensions({" + t + "}, " + (char) ('A' + d) + ")"); T.fold_space_dimensions(vs, Variable(d)); break; }
      case 6: { int v = rnd(0, n - 1), m = rnd(1, 2); ctx.begin("expand_space_dimension", "copy(" + ra + ").expand_space_dimension(" + (char) ('A' + v) + ", " + std::to_string(m) + ")"); T.expand_space_dimension(Variable(v), m); break; }
      default: ctx.begin("concatenate_assign", "copy(" + ra + ").concatenate_assign(" + rb + ")"); T.concatenate_assign(B); break;
      }
      out.push_back(obs_cons_only(T)); break; }
    case QUERY_REL: {
      int k = rnd(0, 2);
      if (k == 0) { RawCon c = coin() ? shaped_con() : raw_con(n, true); ctx.begin("relation_with_constraint", ra + ".relation_with(" + show(c) + ")"); out.push_back(val("rel", pplx::str(A.relation_with(con(c, n))))); }
      else if (k == 1) { ctx.begin("relation_with_generator", ra + ".relation_with"); Generator g = raw_gen(gen_kind(), t); hx::tr("(" + t + ")"); out.push_back(val("rel", pplx::str(A.relation_with(g)))); }
      else { std::vector<long> a = raw_vec(n); long b = rc(); long m = coin(40) ? 0 : (long) rnd(1, (int) G().small + 1);
        ctx.begin("relation_with_congruence", ra + ".relation_with(" + show(a, b) + " =0 mod " + std::to_string(m) + ")"); out.push_back(val("rel", pplx::str(A.relation_with((le(a, b, n) %= 0) / Coefficient(m))))); }
      break; }
    case QUERY_OPT: {
      std::vector<long> a = raw_vec(n, 30); long b = rc(); bool mx = coin();
      ctx.begin(mx ? "maximize" : "minimize", ra + (mx ? ".maximize(" : ".minimize(") + show(a, b) + ")");
      Linear_Expression e = le(a, b, n); Coefficient sn, sd; bool att = false; Generator g = point();
      bool r = coin() ? (mx ? A.maximize(e, sn, sd, att, g) : A.minimize(e, sn, sd, att, g)) : (mx ? A.maximize(e, sn, sd, att) : A.minimize(e, sn, sd, att));
      out.push_back(val("bounded", r)); if (r) { out.push_back(val("opt", frac(toZ(sn), toZ(sd)))); out.push_back(val("attained", att)); }
      out.push_back(val("bounds_from_above", A.bounds_from_above(e))); out.push_back(val("bounds_from_below", A.bounds_from_below(e)));
      Coefficient fn, fd, vn, vd; bool fr = A.frequency(e, fn, fd, vn, vd); out.push_back(val("frequency", fr)); if (fr) out.push_back(val("freq", frac(toZ(fn), toZ(fd)) + " at " + frac(toZ(vn), toZ(vd))));
      break; }
    case QUERY_PRED: {
      ctx.begin("predicates", ra + ".predicates()");
      out.push_back(val("is_empty", A.is_empty())); out.push_back(val("is_universe", A.is_universe())); out.push_back(val("is_bounded", A.is_bounded()));
      out.push_back(val("is_discrete", A.is_discrete())); out.push_back(val("affine_dimension", ZZ((unsigned long) A.affine_dimension())));
      int v = rnd(0, n - 1); out.push_back(val("constrains", A.constrains(Variable(v)))); out.push_back(val("contains_integer_point", A.contains_integer_point()));
      break; }
    case QUERY_BIN: {
      ctx.begin("binary_predicates", ra + ".contains/disjoint/==(" + rb + ")");
      out.push_back(val("contains", A.contains(B))); out.push_back(val("strictly_contains", A.strictly_contains(B)));
      out.push_back(val("is_disjoint_from", A.is_disjoint_from(B))); out.push_back(val("equal", A == B));
      break; }
    case MINIMIZE: {
      int k = rnd(0, 3); static const char* const nm[4] = { "minimized_constraints", "constraints", "minimized_congruences", "OK" };
      ctx.begin(std::string("observe_") + nm[k], ra + "." + nm[k] + "()");
      if (k == 0) (void) A.minimized_constraints(); else if (k == 1) (void) A.constraints(); else if (k == 2) out.push_back(val("congruences", canon(A.minimized_congruences(), n))); else out.push_back(val("OK", A.OK()));
      out.push_back(obs_cons_only(A)); break; }
    case COPYOPS: {
      int k = rnd(0, 2);
      if (k == 0) { ctx.begin("assign", ra + "=" + rb); A = B; fresh[ai] = fresh[bi]; out.push_back(obs_cons_only(A)); }
      else if (k == 1) { ctx.begin("swap", "swap(" + ra + "," + rb + ")"); using std::swap; swap(A, B); std::swap(fresh[ai], fresh[bi]); out.push_back(obs_cons_only(A)); out.push_back(obs_cons_only(B)); }
      else { ctx.begin("copy", "SH(" + ra + ")"); SH c(A); out.push_back(obs_cons_only(c)); }
      break; }
    case WRAP: {
      Variables_Set vs = rand_vars(t); bool sg = coin(); int ov = rnd(0, 2); bool indiv = coin();
      ctx.begin("wrap_assign", ra + ".wrap_assign({" + t + "}, BITS_8, " + (sg ? "signed" : "unsigned") + ", ov" + std::to_string(ov) + ", thr 4, " + (indiv ? "indiv" : "joint") + ")");
      A.wrap_assign(vs, BITS_8, sg ? SIGNED_2_COMPLEMENT : UNSIGNED, ov == 0 ? OVERFLOW_WRAPS : ov == 1 ? OVERFLOW_UNDEFINED : OVERFLOW_IMPOSSIBLE, 0, 4, indiv);
      out.push_back(obs_cons_only(A)); break; }
    case DROP_NONINT: { ctx.begin("drop_some_non_integer_points", ra + ".drop_some_non_integer_points()"); A.drop_some_non_integer_points(); out.push_back(obs_cons_only(A)); break; }
    default: { ctx.begin("to_polyhedron", "C_Polyhedron(" + ra + ")"); C_Polyhedron ph(A); out.push_back(obs_poly(ph)); break; }
    }
  }
};

} // namespace cfg
#endif
