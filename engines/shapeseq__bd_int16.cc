// shapeseq: instantiation of the shape adapter for BD_Shape<int16_t> (see shapeseq.hh).
#include "shapeseq.hh"
SHAPESEQ_REGISTER(bd_int16, Parma_Polyhedra_Library::BD_Shape<int16_t>)
