// termrank: instantiation of the termination entry points for C_Polyhedron and NNC_Polyhedron (see termrank.hh).
#include "termrank.hh"
namespace termrank {
void run_calls_C(const Loop& L, Out& O) { run_calls<Parma_Polyhedra_Library::C_Polyhedron>(L, O); }
void run_bad_dims_C(int n, bool two) { run_bad_dims<Parma_Polyhedra_Library::C_Polyhedron>(n, two); }
void run_calls_NNC(const Loop& L, Out& O) { run_calls<Parma_Polyhedra_Library::NNC_Polyhedron>(L, O); }
void run_bad_dims_NNC(int n, bool two) { run_bad_dims<Parma_Polyhedra_Library::NNC_Polyhedron>(n, two); }
}
