#include "fplin_impl.hh"
namespace fpl { void case_l() { Lin<long double> e("ldouble"); e.run(); } }
