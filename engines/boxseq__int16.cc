// boxseq: instantiation of the box adapter for Parma_Polyhedra_Library::Int16_Box (see boxseq.hh).
#include "boxseq.hh"
BOXSEQ_REGISTER(int16, 4, Parma_Polyhedra_Library::Int16_Box)
