// shapeseq — random operation histories on BD shapes and octagonal shapes over
// nine coefficient types, every step checked against the exact-LP reference model.
//
// Monitors:
//   C03.sound.<inst>.<op>[:class]     a point of the exact result (computed on the arguments'
//                                     denotations read through constraints()) is missing
//   C03.definite.<inst>.<query>       a definite answer (is_empty, contains, is_disjoint_from,
//                                     bounds_*, maximize/minimize bound, relation is_included /
//                                     is_disjoint / saturates) is false of the denoted sets
//   C03.unobservable.<inst>.<op>      constraints()/ascii_dump throw, or NaN in the matrix
//   C03.view.<inst>.<op>[:class]      constraints() of a result cuts points of the result's own matrix
//   C03.crash.<inst>.<op>[:class]     the call kills the process (probed in a forked child)
//   C03.exception / C03.hang          unexpected exception / logical-time budget exceeded
//   C04.exact.<inst>.<op>[:class]     (mpq only) operation the statement calls exact is not
//   C04.best.<inst>.<op>              (mpq only) result is not the smallest element containing T
//   C04.pred.<inst>.<query>           (mpq only) predicate / query differs from the LP answer
// Instantiation: --kv inst=<short|long name>|all|rational  (all / rational rotate by case index;
// default: all, or rational (= the two mpq_class instantiations) when --prop C04).
// Profiles: default | limits (every case draws type-limit bounds) | exact (more queries/twins).
#include "shapeseq.hh"

using namespace shapeseq;
using hx::violation; using hx::tr; using hx::checked;

namespace shapeseq { std::vector<Entry>& table() { static std::vector<Entry> t; return t; } }

typedef std::unique_ptr<Shape> SP;

struct Ctx { const Entry* E; std::string inst; Kind kind; TypeInfo ti; bool limit_case; };
static Ctx g;

static std::string cut(const std::string& s, size_t k = 900) { return s.size() > k ? s.substr(0, k) + "..." : s; }
static std::string key(const char* mon, const std::string& site, const std::string& cls = "") { return std::string(mon) + "." + g.inst + "." + site + (cls.empty() ? "" : ":" + cls); }
static std::string qs(const Q& q) { return q.get_str(); }

// ---------- value generation ----------
static mpz_class pow10z(int k) { mpz_class r; mpz_ui_pow_ui(r.get_mpz_t(), 10, k); return r; }
static mpz_class pow2z(int k) { mpz_class r; mpz_ui_pow_ui(r.get_mpz_t(), 2, k); return r; }

// A bound b/a (a >= 1): small in ordinary cases, biased towards the limits of T in limit cases.
static void rand_bound(mpz_class& a, mpz_class& b) {
  a = 1;
  const TypeInfo& t = g.ti;
  if (!g.limit_case || coin(50)) { b = rnd(-6, 6); if (coin(12)) a = rnd(2, 3); return; }
  if (t.bits) {
    mpz_class L = pow2z(t.bits - 1) - 2; int k = rnd(0, 9);
    if (k < 5) b = L - rnd(0, 6); else if (k < 7) b = L + rnd(1, 50); else if (k < 9) b = L / 2 + rnd(-3, 3); else b = L * 3;
    if (coin()) b = -b;
    if (coin(10)) a = rnd(2, 3);
    return;
  }
  if (t.fdigits) {
    int k = rnd(0, 9);
    if (k < 3) b = pow2z(t.fdigits + rnd(-1, 2)) + rnd(-1, 1);
    else if (k < 5) { b = rnd(-7, 7); a = coin() ? 3 : (coin() ? 7 : 10); }
    else if (k < 8) b = pow10z(t.maxexp10) * rnd(1, 4);
    else if (k < 9) { b = rnd(1, 5); a = pow10z(t.maxexp10 + rnd(0, 8)); }
    else b = pow10z(rnd(5, 25)) + rnd(0, 9);
    if (coin()) b = -b;
    return;
  }
  if (coin()) { b = pow10z(rnd(3, 20)) + rnd(0, 9); if (coin()) b = -b; }
  else { b = rnd(-40, 40); a = rnd(1, 7); }
}
static Coefficient rand_inhomo() {
  if (g.limit_case && coin(35)) { mpz_class a, b; rand_bound(a, b); if (a == 1) return Coefficient(b); }
  return Coefficient(small_coeff(4));
}
static Linear_Expression rexpr(int n, int pct_zero = 40) {
  Linear_Expression e;
  for (int i = 0; i < n; ++i) if (!coin(pct_zero)) e += small_coeff(3) * Variable(i);
  e += rand_inhomo();
  return e;
}
// a constraint the domain `k` represents exactly (never strict)
static Constraint rep_con(int n, Kind k, int pct_eq = 15) {
  mpz_class a, b; rand_bound(a, b);
  Linear_Expression e;
  if (n > 0) {
    int i = rnd(0, n - 1), j = rnd(0, n - 1);
    int form = (n == 1 || i == j) ? 0 : rnd(0, k == K_OCT ? 4 : 2);
    Coefficient ca(a);
    switch (form) {
    case 0: e = (coin() ? ca : Coefficient(-ca)) * Variable(i); break;
    case 1: case 2: e = ca * Variable(i) - ca * Variable(j); break;
    case 3: e = ca * Variable(i) + ca * Variable(j); break;
    default: e = -ca * Variable(i) - ca * Variable(j); break;
    }
  }
  Coefficient cb(b);
  int r = rnd(0, 99);
  if (r < pct_eq) return e == cb;
  if (r < pct_eq + 15) return e >= cb;
  return e <= cb;
}
static Constraint any_con(int n, bool strict_ok) {
  Linear_Expression e = rexpr(n);
  int k = rnd(0, strict_ok ? 9 : 6);
  if (k < 5) return e >= 0;
  if (k < 7) return e == 0;
  return e > 0;
}
static std::string str_cons(const std::vector<Constraint>& v) { std::string s; for (size_t i = 0; i < v.size(); ++i) s += (i ? ", " : "") + str(v[i]); return s; }

// ---------- observation ----------
// The denotation of an element is the point set of its matrix: a copy is converted (exactly)
// to the same domain over mpq_class and read through constraints().  Reading constraints() of
// the inexact element itself is not faithful: once the "reduced" flag is set it drops
// constraints that an overflowed closure wrongly marked redundant.
static bool status_word(const Shape& s, std::string& word, const std::string& op, const std::string& cls = "");
static bool observe(const Shape& s, Sys& out, const std::string& op, const std::string& cls = "") {
  std::string w; if (!status_word(s, w, op, cls)) return false;
  try { SP c(s.clone()); Constraint_System cs = c->matrix_constraints(); out = ref::conv(cs, s.dim()); return true; }
  catch (const std::exception& e) { violation(key("C03.unobservable", op, cls), std::string("constraints() of a copy threw ") + typeid(e).name() + ": " + e.what()); return false; }
}
// status word of ascii_dump; also refuses matrices holding NaN
static bool status_word(const Shape& s, std::string& word, const std::string& op, const std::string& cls) {
  std::string text;
  try { std::ostringstream o; s.ascii_dump(o); text = o.str(); }
  catch (const std::exception& e) { violation(key("C03.unobservable", op, cls), std::string("ascii_dump threw ") + typeid(e).name() + ": " + e.what()); return false; }
  std::string low = text; for (size_t i = 0; i < low.size(); ++i) low[i] = tolower(low[i]);
  if (low.find("-inf") != std::string::npos) { violation(key("C03.unobservable", op, cls), "minus-infinity entry in the matrix (no rational bound; constraints() reads it as garbage): " + cut(text, 400)); return false; }
  if (low.find("nan") != std::string::npos) { violation(key("C03.unobservable", op, cls), "NaN entry in the matrix: " + cut(text, 400)); return false; }
  size_t p = text.find("EM"); word = "?";
  if (p != std::string::npos) { size_t a = text.rfind('\n', p); a = (a == std::string::npos) ? 0 : a + 1; size_t b = text.find('\n', p); word = text.substr(a, b - a); }
  return true;
}

static bool sys_included(int n, const Sys& a, const Sys& b) { return ref::esys_in_cons(ref::esys_of(a, n), b, 0, 0); }
static bool sys_equal(int n, const Sys& a, const Sys& b) { return sys_included(n, a, b) && sys_included(n, b, a); }
static bool esys_feasible(const ESys& T) { return ref::feasible(T.n + T.aux, T.s); }
static ESys esys_empty(int n) { ESys T; T.n = n; T.aux = 0; T.s.push_back(Con(Vec(n), Q(-1), ref::LE)); return T; }

static std::string shape_class(int n, const Sys& S) {
  if (!ref::feasible(n, S)) return "empty";
  bool univ = true, eq = false;
  for (size_t i = 0; i < S.size(); ++i) { bool z = true; for (size_t j = 0; j < S[i].a.size(); ++j) if (S[i].a[j] != 0) z = false; if (!z) { univ = false; if (S[i].rel == ref::EQ) eq = true; } }
  if (univ) return "universe";
  return eq ? "proper+eq" : "proper";
}
static bool nontrivial(const std::string& c) { return c != "empty" && c != "universe"; }

// ---------- triage class of a soundness alarm (deterministic predicate on the inputs) ----------
// est = (sum |coef|) * (largest |bound| of the arguments and of the operation's constants) + |inhomogeneous|
//   bounded integers:  overflow  (est exceeds the largest finite value of T) | inrange
//   floating point:    denormal  (a non-zero bound below the smallest normal number of T)
//                      overflow  (est beyond the largest finite value) | inexact (est >= 2^mantissa) | ordinary
static std::string mag_class(const std::vector<const Sys*>& args, const std::vector<Q>& coefs, const Q& inhomo, const std::vector<Q>& vals = std::vector<Q>()) {
  const TypeInfo& t = g.ti;
  if (!t.bits && !t.fdigits) return "";
  Q M = 0, tiny = 0; bool has_tiny = false;
  std::vector<Q> all = vals;
  for (size_t k = 0; k < args.size(); ++k) for (size_t i = 0; i < args[k]->size(); ++i) {
    const Con& c = (*args[k])[i]; Q am = 0; for (size_t j = 0; j < c.a.size(); ++j) if (abs(c.a[j]) > am) am = abs(c.a[j]);
    if (am != 0) all.push_back(abs(c.b) / am);
  }
  for (size_t i = 0; i < all.size(); ++i) { Q v = abs(all[i]); if (v > M) M = v; if (v != 0 && (!has_tiny || v < tiny)) { tiny = v; has_tiny = true; } }
  Q P = 0; for (size_t i = 0; i < coefs.size(); ++i) P += abs(coefs[i]);
  if (coefs.empty()) P = 2;   // lattice operations and closure add two bounds
  if (M < 1) M = 1;
  Q est = P * M + abs(inhomo);
  if (t.bits) { Q L(pow2z(t.bits - 1) - 2); return est > L ? "overflow" : "inrange"; }
  int emax = t.fdigits == 24 ? 128 : t.fdigits == 53 ? 1024 : 16384;
  Q minnorm = 1 / Q(pow2z(emax - 2));
  if (has_tiny && tiny < minnorm) return "denormal";
  if (est >= Q(pow2z(emax))) return "overflow";
  if (est >= Q(pow2z(t.fdigits)) || abs(inhomo) >= Q(pow2z(t.fdigits))) return "inexact";
  return "ordinary";
}
static Q bound_of(const Constraint& c) { Q am = 0; for (dimension_type i = 0; i < c.space_dimension(); ++i) { Q v = abs(ref::toQ(c.coefficient(Variable(i)))); if (v > am) am = v; } Q b = abs(ref::toQ(c.inhomogeneous_term())); return am == 0 ? b : Q(b / am); }

// ---------- the oracles ----------
// exact result T (exists-form) must be inside the returned element
static bool check_sound(const std::string& op, const std::string& cls, const ESys& T, const Sys& RC, const std::string& ctx, const char* mon = "C03.sound") {
  checked(); hx::count("sound_checks");
  int nv = T.n + T.aux;
  for (size_t i = 0; i < RC.size(); ++i) {
    std::vector<Con> ng = ref::negate(RC[i]);
    for (size_t k = 0; k < ng.size(); ++k) {
      Sys s = T.s; Con c = ng[k]; c.a.resize(nv); s.push_back(c);
      Vec w;
      if (ref::feasible(nv, s, &w)) {
        Vec wv(w.begin(), w.begin() + T.n);
        // independent re-validation by plain arithmetic
        if (!ref::sat(T.s, w) || ref::sat(RC[i], wv)) { violation("harness.bug.lost_witness", op); return false; }
        violation(key(mon, op, cls), "point " + cut(show(wv), 300) + " of the exact result violates result constraint " + cut(show(RC[i]), 300) + "; " + cut(ctx));
        return false;
      }
    }
  }
  return true;
}
static std::vector<Vec> template_dirs(Kind k, int n) {
  std::vector<Vec> dirs;
  for (int i = 0; i < n; ++i) for (int s = -1; s <= 1; s += 2) { Vec a(n); a[i] = s; dirs.push_back(a); }
  for (int i = 0; i < n; ++i) for (int j = 0; j < n; ++j) if (i != j) { Vec a(n); a[i] = 1; a[j] = -1; dirs.push_back(a); }
  if (k == K_OCT) for (int i = 0; i < n; ++i) for (int j = i + 1; j < n; ++j) for (int s = -1; s <= 1; s += 2) { Vec a(n); a[i] = s; a[j] = s; dirs.push_back(a); }
  return dirs;
}
// R (constraints RC over n variables) is the smallest element of the domain containing the union of the pieces
static bool check_best(const char* mon, const std::string& op, const std::string& cls, const std::vector<ESys>& pieces, int n, const Sys& RC, const std::string& ctx) {
  checked(); hx::count("best_checks");
  std::vector<const ESys*> ne;
  for (size_t i = 0; i < pieces.size(); ++i) if (esys_feasible(pieces[i])) ne.push_back(&pieces[i]);
  bool rne = ref::feasible(n, RC);
  if (ne.empty()) { if (rne) { violation(key(mon, op, cls), "the exact result is empty but the returned element is not; " + cut(ctx)); return false; } return true; }
  if (!rne) { violation(key(mon, op, cls), "returned element empty, exact result is not; " + cut(ctx)); return false; }
  std::vector<Vec> dirs = template_dirs(g.kind, n);
  for (size_t di = 0; di < dirs.size(); ++di) {
    bool tb = true; Q ts; bool first = true;
    for (size_t i = 0; i < ne.size() && tb; ++i) {
      int nv = ne[i]->n + ne[i]->aux; Vec dd = dirs[di]; dd.resize(nv);
      ref::SupResult s = ref::supremum(nv, ne[i]->s, dd);
      if (!s.bounded) tb = false; else if (first || s.sup > ts) { ts = s.sup; first = false; }
    }
    ref::SupResult sr = ref::supremum(n, RC, dirs[di]);
    if (tb != sr.bounded || (tb && ts != sr.sup)) {
      violation(key(mon, op, cls), "direction " + show(dirs[di]) + ": sup over the exact result " + (tb ? qs(ts) : std::string("+inf")) + ", over the returned element " + (sr.bounded ? qs(sr.sup) : std::string("+inf")) + "; " + cut(ctx));
      return false;
    }
  }
  return true;
}
enum Mode { SOUND_ONLY = 0, EXACT = 1, BEST = 2 };
// Soundness for every T; exactness / bestness only over unbounded rationals.
static bool verify(const std::string& op, const std::string& cls03, const std::string& cls04, Mode mode, const std::vector<ESys>& pieces, int n, const Sys& RC, const std::string& ctx) {
  for (size_t i = 0; i < pieces.size(); ++i) if (!check_sound(op, cls03, pieces[i], RC, ctx)) return false;
  if (!g.ti.exact || mode == SOUND_ONLY) return true;
  if (mode == EXACT && pieces.size() == 1 && pieces[0].aux == 0) {
    checked(); hx::count("exact_checks");
    Vec wit; std::string why;
    if (!ref::esys_in_cons(ref::esys_of(RC, n), pieces[0].s, &wit, &why)) { violation(key("C04.exact", op, cls04), "point " + show(wit) + " of the returned element is outside the exact result; " + cut(ctx)); return false; }
    return true;
  }
  return check_best(mode == EXACT ? "C04.exact" : "C04.best", op, cls04, pieces, n, RC, ctx);
}

// integer points of S: all of them when S is bounded and small, otherwise those of a
// 10^n window around a feasible point (still points that an integer-aware operator must keep)
static bool int_points(int n, const Sys& S, std::vector<Vec>& pts, long cap = 3000) {
  pts.clear();
  Vec w;
  if (!ref::feasible(n, S, &w)) return true;
  std::vector<mpz_class> lo(n), hi(n); mpz_class vol = 1;
  for (int i = 0; i < n; ++i) {
    Vec a(n); a[i] = 1; ref::SupResult u = ref::supremum(n, S, a); a[i] = -1; ref::SupResult l = ref::supremum(n, S, a);
    mpz_class c; mpz_fdiv_q(c.get_mpz_t(), w[i].get_num_mpz_t(), w[i].get_den_mpz_t());
    mpz_class wl = c - 4, wh = c + 5;
    if (u.bounded) mpz_fdiv_q(hi[i].get_mpz_t(), u.sup.get_num_mpz_t(), u.sup.get_den_mpz_t()); else hi[i] = wh;
    if (l.bounded) { Q lv = -l.sup; mpz_cdiv_q(lo[i].get_mpz_t(), lv.get_num_mpz_t(), lv.get_den_mpz_t()); } else lo[i] = wl;
    if (hi[i] - lo[i] > 12) { if (lo[i] < wl) lo[i] = wl; if (hi[i] > wh) hi[i] = wh; hx::count("int_window_clamped"); }
    if (hi[i] < lo[i]) return true;
    vol *= (hi[i] - lo[i] + 1);
    if (vol > cap) return false;
  }
  Vec x(n); std::vector<mpz_class> cur = lo;
  if (n == 0) { pts.push_back(x); return true; }
  for (;;) {
    for (int i = 0; i < n; ++i) x[i] = cur[i];
    if (ref::sat(S, x)) pts.push_back(x);
    int i = 0; while (i < n) { if (cur[i] < hi[i]) { ++cur[i]; break; } cur[i] = lo[i]; ++i; }
    if (i == n) break;
  }
  return true;
}

// run a PPL call under the logical-time watchdog; unexpected exceptions are violations
template <typename F> static bool guarded(const std::string& op, F f) {
  try { Weight_Guard wg(200000000ULL); f(); note_weight("step", wg.used()); return true; }
  catch (const Logical_Timeout&) { violation(key("C03.hang", op), "logical-time budget (weight 2e8) exceeded"); }
  catch (const std::exception& e) { violation(key("C03.exception", op, typeid(e).name()), e.what()); }
  return false;
}

// Does the call survive in a forked child?  Used for operations met to kill the process
// (ppl_unreachable): the defect gets a key and the case continues in this process.
#include <sys/wait.h>
template <typename F> static bool survives_in_child(F f) {
  fflush(0);
  pid_t pid = fork();
  if (pid < 0) return true;
  if (pid == 0) { if (!freopen("/dev/null", "w", stderr)) _exit(0); try { f(); } catch (...) {} _exit(0); }
  int st = 0; if (waitpid(pid, &st, 0) < 0) return true;
  return WIFEXITED(st) && WEXITSTATUS(st) == 0;
}

// ---------- one step's context ----------
struct StepCtx {
  std::vector<SP>& pool; std::vector<std::string>& lastop;
  int n, ai, bi; Sys SA, SB; std::string stw, clsA, clsB, pre;
  StepCtx(std::vector<SP>& p, std::vector<std::string>& l) : pool(p), lastop(l), n(0), ai(0), bi(0) {}
  Shape& A() { return *pool[ai]; } Shape& B() { return *pool[bi]; }
};
static void qvec(const Linear_Expression& e, int n, const Coefficient& d, std::vector<Q>& coefs, Q& inh) {
  // products are formed before the division by the denominator (and preimages multiply by it)
  Vec a; Q b; ref::conv(e, n, a, b); Q dq = ref::toQ(d);
  for (int i = 0; i < n; ++i) if (a[i] != 0) coefs.push_back(a[i]);
  if (abs(dq) != 1) coefs.push_back(dq);
  if (abs(b) > inh) inh = abs(b);
}
// is x_v' = e/d a relation the domain expresses exactly?
static bool expressible(Kind k, int n, int v, const Vec& ea, const Q& d) {
  int cnt = 0, w = -1; for (int i = 0; i < n; ++i) if (ea[i] != 0) { ++cnt; w = i; }
  (void) v;
  if (cnt == 0) return true;
  if (cnt > 1) return false;
  if (ea[w] == d) return true;
  if (ea[w] == -d) return k == K_OCT;
  return false;
}
// an expression biased towards the expressible forms
static Linear_Expression affine_expr(int n, int v, int d) {
  int k = rnd(0, 99);
  if (k < 40) return rexpr(n);
  Linear_Expression e; e += rand_inhomo();
  if (k < 50) return e;
  int w = (k < 70) ? v : rnd(0, n - 1);
  int s = (coin(30)) ? -1 : 1;
  e += (s * d) * Variable(w);
  return e;
}
static const Relation_Symbol REL3[3] = { LESS_OR_EQUAL, EQUAL, GREATER_OR_EQUAL };
static const int REL3I[3] = { 1, 2, 3 };
static const char* const REL3S[3] = { "<=", "==", ">=" };

// Applies one random mutator to pool[ai] and checks it.  Returns false if the case must stop.
static bool mutate(StepCtx& c) {
  const int n = c.n; Shape& A = c.A(); Shape& B = c.B();
  const Sys& SA = c.SA; const Sys& SB = c.SB;
  std::string op; std::ostringstream t; std::vector<ESys> pieces; Mode mode = SOUND_ONLY; std::string cls04;
  std::vector<const Sys*> margs; margs.push_back(&SA); std::vector<Q> mcoefs, mvals; Q minh = 0; bool mcoef_given = false;
  bool usesB = false; bool ok = true;
  std::function<void()> call; std::function<bool(const Sys&)> extra;   // extra oracle after the generic one
  std::shared_ptr<int> bres(new int(-1));
  int k = rnd(0, 99);
  if (n == 0 && k >= 14 && k < 62) k = rnd(0, 13);
  if (k < 8) { // add_constraint(s), add_recycled_constraints: representable constraints, exact
    int which = rnd(0, 2); int cnt = which == 0 ? 1 : rnd(0, 3);
    std::vector<Constraint> cv; for (int i = 0; i < cnt; ++i) cv.push_back(rep_con(n, g.kind));
    Constraint_System cs; for (size_t i = 0; i < cv.size(); ++i) cs.insert(cv[i]);
    const char* nm[3] = { "add_constraint", "add_constraints", "add_recycled_constraints" }; op = nm[which];
    t << "." << op << "(" << str_cons(cv) << ")";
    call = [=, &A]() { if (which == 0) A.add_constraint(cv[0]); else if (which == 1) A.add_constraints(cs); else { Constraint_System tmp(cs); A.add_recycled_constraints(tmp); } };
    Sys T = SA; for (size_t i = 0; i < cv.size(); ++i) T.push_back(ref::conv(cv[i], n));
    pieces.push_back(ref::esys_of(T, n)); mode = EXACT;
    for (size_t i = 0; i < cv.size(); ++i) mvals.push_back(bound_of(cv[i]));
  }
  else if (k < 14) { // refine_with_constraint(s): arbitrary constraints, strict ones included
    int which = rnd(0, 1); int cnt = which == 0 ? 1 : rnd(0, 3);
    std::vector<Constraint> cv; bool allrep = true;
    for (int i = 0; i < cnt; ++i) { if (coin(45)) cv.push_back(rep_con(n, g.kind)); else { cv.push_back(any_con(n, true)); allrep = false; } }
    Constraint_System cs; for (size_t i = 0; i < cv.size(); ++i) cs.insert(cv[i]);
    op = which == 0 ? "refine_with_constraint" : "refine_with_constraints";
    t << "." << op << "(" << str_cons(cv) << ")";
    call = [=, &A]() { if (which == 0) A.refine_with_constraint(cv[0]); else A.refine_with_constraints(cs); };
    Sys T = SA; for (size_t i = 0; i < cv.size(); ++i) T.push_back(ref::conv(cv[i], n));
    pieces.push_back(ref::esys_of(T, n)); mode = allrep ? EXACT : SOUND_ONLY; cls04 = "representable";
    for (size_t i = 0; i < cv.size(); ++i) mvals.push_back(bound_of(cv[i]));
  }
  else if (k < 19) { // congruences: add_ takes representable equalities, refine_ anything
    int which = rnd(0, 4); int cnt = (which == 0 || which == 3) ? 1 : rnd(0, 2); bool refine = which >= 3;
    std::vector<Congruence> gv; bool allrep = true;
    for (int i = 0; i < cnt; ++i) {
      if (!refine || coin(50)) { Constraint rc = rep_con(n, g.kind, 100); Linear_Expression e(rc.expression()); gv.push_back((e %= 0) / 0); }
      else { gv.push_back(rand_cg(n, 3)); allrep = false; }
    }
    Congruence_System cgs; for (size_t i = 0; i < gv.size(); ++i) cgs.insert(gv[i]);
    const char* nm[5] = { "add_congruence", "add_congruences", "add_recycled_congruences", "refine_with_congruence", "refine_with_congruences" }; op = nm[which];
    t << "." << op << "("; for (size_t i = 0; i < gv.size(); ++i) t << (i ? ", " : "") << str(gv[i]); t << ")";
    call = [=, &A]() { switch (which) { case 0: A.add_congruence(gv[0]); break; case 1: A.add_congruences(cgs); break; case 2: { Congruence_System tmp(cgs); A.add_recycled_congruences(tmp); break; } case 3: A.refine_with_congruence(gv[0]); break; default: A.refine_with_congruences(cgs); } };
    Sys T = SA;
    for (size_t i = 0; i < gv.size(); ++i) {
      Vec a(n); for (int d = 0; d < n && d < (int) gv[i].space_dimension(); ++d) a[d] = ref::toQ(gv[i].coefficient(Variable(d)));
      Q b = ref::toQ(gv[i].inhomogeneous_term());
      if (gv[i].is_equality()) T.push_back(Con(a, Q(-b), ref::EQ));
      else if (gv[i].is_inconsistent()) T.push_back(Con(Vec(n), Q(-1), ref::LE));
      // other proper congruences are documented to be ignored
      { Q am = 0; for (int d = 0; d < n; ++d) if (abs(a[d]) > am) am = abs(a[d]); mvals.push_back(am == 0 ? Q(abs(b)) : Q(abs(b) / am)); }
    }
    pieces.push_back(ref::esys_of(T, n)); mode = allrep ? EXACT : SOUND_ONLY; cls04 = "representable";
  }
  else if (k < 28) { // affine image / preimage
    bool pre = coin(); int v = rnd(0, n - 1); int d = rand_den(); Linear_Expression e = affine_expr(n, v, d);
    op = pre ? "affine_preimage" : "affine_image"; t << "." << op << "(" << str(Variable(v)) << ", " << str(e) << ", " << d << ")";
    call = [=, &A]() { if (pre) A.affine_preimage(Variable(v), e, Coefficient(d)); else A.affine_image(Variable(v), e, Coefficient(d)); };
    Vec ea; Q eb; ref::conv(e, n, ea, eb);
    pieces.push_back(ref::def_gen_affine(SA, n, v, 2, ea, eb, Q(d), pre));
    if (expressible(g.kind, n, v, ea, Q(d))) { mode = EXACT; cls04 = (ea[v] != 0) ? "invertible" : "non-invertible"; }
    qvec(e, n, Coefficient(d), mcoefs, minh); mcoef_given = true;
  }
  else if (k < 36) { // generalized affine image / preimage, variable form
    bool pre = coin(); int v = rnd(0, n - 1); int d = rand_den(); Linear_Expression e = affine_expr(n, v, d); int ri = rnd(0, 2);
    op = pre ? "generalized_affine_preimage" : "generalized_affine_image"; t << "." << op << "(" << str(Variable(v)) << ", " << REL3S[ri] << ", " << str(e) << ", " << d << ")";
    call = [=, &A]() { if (pre) A.generalized_affine_preimage(Variable(v), REL3[ri], e, Coefficient(d)); else A.generalized_affine_image(Variable(v), REL3[ri], e, Coefficient(d)); };
    Vec ea; Q eb; ref::conv(e, n, ea, eb);
    pieces.push_back(ref::def_gen_affine(SA, n, v, REL3I[ri], ea, eb, Q(d), pre));
    qvec(e, n, Coefficient(d), mcoefs, minh); mcoef_given = true;
  }
  else if (k < 42) { // generalized affine image / preimage, lhs/rhs form
    bool pre = coin(); Linear_Expression l = coin(60) ? Linear_Expression(small_coeff(2) * Variable(rnd(0, n - 1)) + small_coeff(3)) : rexpr(n, 55); Linear_Expression r = rexpr(n); int ri = rnd(0, 2);
    op = pre ? "generalized_affine_preimage_lr" : "generalized_affine_image_lr"; t << "." << op << "(" << str(l) << ", " << REL3S[ri] << ", " << str(r) << ")";
    call = [=, &A]() { if (pre) A.generalized_affine_preimage(l, REL3[ri], r); else A.generalized_affine_image(l, REL3[ri], r); };
    Vec la, ra; Q lb, rb; ref::conv(l, n, la, lb); ref::conv(r, n, ra, rb);
    pieces.push_back(ref::def_gen_affine_lr(SA, n, la, lb, REL3I[ri], ra, rb, pre));
    qvec(l, n, Coefficient(1), mcoefs, minh); qvec(r, n, Coefficient(1), mcoefs, minh); mcoef_given = true;
  }
  else if (k < 50) { // bounded affine image / preimage
    bool pre = coin(); int v = rnd(0, n - 1); int d = rand_den(); Linear_Expression lb = affine_expr(n, v, d), ub = affine_expr(n, v, d);
    op = pre ? "bounded_affine_preimage" : "bounded_affine_image"; t << "." << op << "(" << str(Variable(v)) << ", " << str(lb) << ", " << str(ub) << ", " << d << ")";
    call = [=, &A]() { if (pre) A.bounded_affine_preimage(Variable(v), lb, ub, Coefficient(d)); else A.bounded_affine_image(Variable(v), lb, ub, Coefficient(d)); };
    Vec la, ua; Q lbb, ubb; ref::conv(lb, n, la, lbb); ref::conv(ub, n, ua, ubb);
    pieces.push_back(ref::def_bounded_affine(SA, n, v, la, lbb, ua, ubb, Q(d), pre));
    qvec(lb, n, Coefficient(d), mcoefs, minh); qvec(ub, n, Coefficient(d), mcoefs, minh); mcoef_given = true;
  }
  else if (k < 54) { // unconstrain
    bool set = coin(); std::vector<bool> vars(n, false); Variables_Set vs;
    if (set) { for (int i = 0; i < n; ++i) if (coin(40)) { vars[i] = true; vs.insert(Variable(i)); } } else { int v = rnd(0, n - 1); vars[v] = true; vs.insert(Variable(v)); }
    op = set ? "unconstrain_set" : "unconstrain"; t << "." << op << "(" << str(vs) << ")";
    call = [=, &A]() { if (set) A.unconstrain(vs); else A.unconstrain(Variable(*vs.begin())); };
    pieces.push_back(ref::def_unconstrain(SA, n, vars));
  }
  else if (k < 62) { // drop_some_non_integer_points / topological closure
    if (coin(25)) { op = "topological_closure_assign"; t << "." << op << "()"; call = [&A]() { A.topological_closure_assign(); }; pieces.push_back(ref::esys_of(SA, n)); mode = EXACT; }
    else {
      Variables_Set vs; bool all = coin(); if (!all) for (int i = 0; i < n; ++i) if (coin()) vs.insert(Variable(i));
      Complexity_Class cc = (Complexity_Class) rnd(0, 2);
      op = "drop_some_non_integer_points"; t << "." << op << "(" << (all ? std::string("all") : str(vs)) << ", " << (int) cc << ")";
      call = [=, &A]() { if (all) A.drop_some_non_integer_points(cc); else A.drop_some_non_integer_points(vs, cc); };
      extra = [=, &SA](const Sys& RC) -> bool {
        std::vector<Vec> pts;
        if (!int_points(n, SA, pts)) { hx::inconclusive("int_window"); return true; }
        checked(); hx::count("int_points_checked", pts.size());
        for (size_t i = 0; i < pts.size(); ++i) if (!ref::sat(RC, pts[i])) { violation(key("C03.sound", "drop_some_non_integer_points"), "integer point " + show(pts[i]) + " of the argument " + cut(show(SA)) + " is missing from the result " + cut(show(RC))); return false; }
        return true;
      };
    }
  }
  else if (k < 68) { op = "intersection_assign"; usesB = true; t << "." << op << "(#" << c.bi << ")";
    call = [&A, &B]() { A.intersection_assign(B); };
    Sys T = SA; T.insert(T.end(), SB.begin(), SB.end()); pieces.push_back(ref::esys_of(T, n)); mode = EXACT; }
  else if (k < 75) { op = "upper_bound_assign"; usesB = true; t << "." << op << "(#" << c.bi << ")";
    call = [&A, &B]() { A.upper_bound_assign(B); };
    pieces.push_back(ref::esys_of(SA, n)); pieces.push_back(ref::esys_of(SB, n)); mode = BEST; }
  else if (k < 82) { // upper_bound_assign_if_exact (+ the integer variant on integral T)
    bool integer = g.ti.integer && coin(35);
    op = integer ? "integer_upper_bound_assign_if_exact" : "upper_bound_assign_if_exact"; usesB = true; t << "." << op << "(#" << c.bi << ")";
    call = [=, &A, &B]() { *bres = integer ? A.integer_upper_bound_assign_if_exact(B) : (A.upper_bound_assign_if_exact(B) ? 1 : 0); };
    extra = [=, &SA, &SB](const Sys& RC) -> bool {
      std::string ctx = "returned " + std::to_string(*bres) + "; A=" + cut(show(SA), 400) + " B=" + cut(show(SB), 400) + " R=" + cut(show(RC), 400);
      std::string cls = mag_class(std::vector<const Sys*>{ &SA, &SB }, std::vector<Q>(), Q(0));
      if (integer) { // semantics on integer points: every integer point of A (and of B when true) stays
        std::vector<Vec> pa, pb;
        if (!int_points(n, SA, pa) || !int_points(n, SB, pb)) { hx::inconclusive("int_window"); return true; }
        checked();
        if (*bres == 1) pa.insert(pa.end(), pb.begin(), pb.end());
        for (size_t i = 0; i < pa.size(); ++i) if (!ref::sat(RC, pa[i])) { violation(key("C03.sound", op, cls), "integer point " + show(pa[i]) + " lost; " + ctx); return false; }
        return true;
      }
      if (!check_sound(op, cls, ref::esys_of(SA, n), RC, ctx)) return false;
      if (*bres == 1 && !check_sound(op, cls, ref::esys_of(SB, n), RC, ctx)) return false;
      if (!g.ti.exact) return true;
      // Boolean: true exactly when A u B is an element of the domain, i.e. its best abstraction H is covered by A u B
      std::vector<ESys> two; two.push_back(ref::esys_of(SA, n)); two.push_back(ref::esys_of(SB, n));
      bool ea = !ref::feasible(n, SA), eb = !ref::feasible(n, SB);
      int covered;
      if (ea || eb) covered = 1;
      else {
        Sys H; std::vector<Vec> dirs = template_dirs(g.kind, n);
        for (size_t i = 0; i < dirs.size(); ++i) { ref::SupResult a = ref::supremum(n, SA, dirs[i]), b = ref::supremum(n, SB, dirs[i]); if (a.bounded && b.bounded) H.push_back(Con(dirs[i], a.sup > b.sup ? a.sup : b.sup, ref::LE)); }
        std::vector<Sys> U(1, H), V; V.push_back(SA); V.push_back(SB);
        covered = ref::union_included(n, U, V, 0);
      }
      checked();
      if (covered < 0) { hx::inconclusive("union_cap"); return true; }
      if ((*bres == 1) != (covered == 1)) { violation(key("C04.exact", op, *bres == 1 ? "true-but-union-not-in-domain" : "false-but-union-in-domain"), ctx); return false; }
      if (*bres == 1) return check_best("C04.best", op, "", two, n, RC, ctx);
      if (!sys_equal(n, RC, SA)) { violation(key("C04.exact", op, "false-but-changed"), ctx); return false; }
      return true;
    };
  }
  else if (k < 89) { op = "difference_assign"; usesB = true; t << "." << op << "(#" << c.bi << ")";
    call = [&A, &B]() { A.difference_assign(B); };
    if (!ref::feasible(n, SB)) pieces.push_back(ref::esys_of(SA, n));
    else { std::vector<Sys> ps = ref::difference_pieces(n, SA, SB); for (size_t i = 0; i < ps.size(); ++i) pieces.push_back(ref::esys_of(ps[i], n)); if (ps.empty()) pieces.push_back(esys_empty(n)); }
    mode = BEST; }
  else if (k < 95) { op = "time_elapse_assign"; usesB = true; t << "." << op << "(#" << c.bi << ")";
    call = [&A, &B]() { A.time_elapse_assign(B); };
    if (!ref::feasible(n, SB) || !ref::feasible(n, SA)) pieces.push_back(esys_empty(n));
    else { // x = p + z, p in A, z = lambda q with q in B, lambda >= 0
      ESys T; T.n = n; T.aux = 2 * n + 1; int nv = 3 * n + 1, lam = 3 * n;
      for (size_t i = 0; i < SA.size(); ++i) T.s.push_back(ref::shift(SA[i], nv, n));
      for (size_t i = 0; i < SB.size(); ++i) { Con cc = ref::shift(SB[i], nv, 2 * n); cc.a[lam] = -SB[i].b; cc.b = 0; T.s.push_back(cc); }
      { Vec a(nv); a[lam] = -1; T.s.push_back(Con(a, Q(0), ref::LE)); }
      for (int d = 0; d < n; ++d) { Vec a(nv); a[d] = 1; a[n + d] = -1; a[2 * n + d] = -1; T.s.push_back(Con(a, Q(0), ref::EQ)); }
      pieces.push_back(T);
    } }
  else { op = "simplify_using_context_assign"; usesB = true; t << "." << op << "(#" << c.bi << ")";
    call = [=, &A, &B]() { *bres = A.simplify_using_context_assign(B) ? 1 : 0; };
    hx::count("crash_probes");
    if (!survives_in_child([&]() { SP x(A.clone()), y(B.clone()); (void) x->simplify_using_context_assign(*y); })) {
      tr(c.pre + t.str()); checked();
      violation(key("C03.crash", op, mag_class(std::vector<const Sys*>{ &SA, &SB }, std::vector<Q>(), Q(0))), "the call kills the process (probed in a forked child); A=" + cut(show(SA), 500) + " B=" + cut(show(SB), 500));
      return false;
    }
    extra = [=, &SA, &SB](const Sys& RC) -> bool {
      // meet-preserving enlargement: when the meet is non-empty the result must keep every point of A
      Sys meet = SA; meet.insert(meet.end(), SB.begin(), SB.end());
      if (!ref::feasible(n, meet)) return true;
      std::string cls = mag_class(std::vector<const Sys*>{ &SA, &SB }, std::vector<Q>(), Q(0));
      return check_sound(op, cls, ref::esys_of(SA, n), RC, "A=" + cut(show(SA), 400) + " B=" + cut(show(SB), 400) + " R=" + cut(show(RC), 400));
    };
  }
  if (usesB) margs.push_back(&SB);
  tr(c.pre + t.str()); hx::count("op." + op);
  if (nontrivial(c.clsA)) hx::distinct("op|" + g.inst + "|" + op + "|" + c.stw + "|" + c.clsA + (usesB ? "|" + c.clsB + (c.ai == c.bi ? "|alias" : "") : "") + (cls04.empty() ? "" : "|" + cls04));
  c.lastop[c.ai] = op;
  std::string cls03 = mag_class(margs, mcoef_given ? mcoefs : std::vector<Q>(), minh, mvals);
  if (!guarded(op, call)) return false;
  Sys RC;
  if (!observe(A, RC, op, cls03)) return false;
  if ((int) A.dim() != n) { violation(key("C03.sound", op, "dimension"), "space dimension changed"); return false; }
  { // the client-visible constraints() of the result must not cut points of the result's own matrix
    Sys VC;
    try { SP c2(A.clone()); VC = ref::conv(c2->constraints(), n); }
    catch (const std::exception& e) { violation(key("C03.unobservable", op, cls03), std::string("constraints() of a copy threw ") + typeid(e).name() + ": " + e.what()); return false; }
    hx::count("view_checks");
    if (!check_sound(op, cls03, ref::esys_of(RC, n), VC, "constraints() of the result excludes points of the result's own matrix (stale reduction data); matrix=" + cut(show(RC), 500) + " constraints()=" + cut(show(VC), 500) + " A=" + cut(show(SA), 400), "C03.view")) return false;
  }
  std::string ctx = "A=" + cut(show(SA), 500) + (usesB ? " B=" + cut(show(SB), 500) : "") + " R=" + cut(show(RC), 500);
  if (!pieces.empty()) ok = verify(op, cls03, cls04, mode, pieces, n, RC, ctx);
  if (ok && extra) ok = extra(RC);
  return ok;
}

// ---------- predicates and queries ----------
// definite: `true` is the answer that must be trustworthy for every T
static bool pred(const std::string& q, bool ppl, bool rf, bool definite, const std::string& ctx) {
  checked(); hx::count("pred_checks");
  if (definite && ppl && !rf) { violation(key("C03.definite", q), "answered true, false of the denoted sets; " + cut(ctx)); return false; }
  if (g.ti.exact && ppl != rf) { violation(key("C04.pred", q), std::string("PPL ") + (ppl ? "true" : "false") + ", LP " + (rf ? "true" : "false") + "; " + cut(ctx)); return false; }
  return true;
}
static bool is_cylinder_along(int n, const Sys& S, int v) { std::vector<bool> vars(n, false); vars[v] = true; return ref::esys_in_cons(ref::def_unconstrain(S, n, vars), S, 0, 0); }
static int ref_affine_dim(int n, const Sys& SA) {
  std::vector<Vec> eqs;
  for (size_t i = 0; i < SA.size(); ++i) {
    Vec a = SA[i].a; a.resize(n); bool z = true; for (int d = 0; d < n; ++d) if (a[d] != 0) z = false; if (z) continue;
    if (SA[i].rel == ref::EQ) { eqs.push_back(a); continue; }
    Vec na(n); for (int d = 0; d < n; ++d) na[d] = -a[d];
    ref::SupResult lo = ref::supremum(n, SA, na);
    if (lo.bounded && -lo.sup == SA[i].b) eqs.push_back(a);
  }
  return n - ref::rank_of(eqs, n);
}

static bool queries(StepCtx& c) {
  const int n = c.n; Shape& A = c.A(); Shape& B = c.B(); const Sys& SA = c.SA; const Sys& SB = c.SB;
  const bool ex = g.ti.exact;
  bool ne = ref::feasible(n, SA);
  std::string ctxA = "A=" + cut(show(SA), 600), ctxAB = ctxA + " B=" + cut(show(SB), 600);
  int which = rnd(0, 9); if (n == 0 && which == 5) which = 0;
  bool ok = true;
  std::string qn;
  bool done = guarded("query", [&]() {
    switch (which) {
    case 0: { qn = "unary_preds"; tr(c.pre + ".unary_preds()"); hx::count("q.unary");
      bool e = A.is_empty(); if (!(ok = pred("is_empty", e, !ne, true, ctxA))) return;
      if (ex) {
        ESys U; U.n = n; if (!(ok = pred("is_universe", A.is_universe(), ref::esys_in_cons(U, SA, 0, 0), false, ctxA))) return;
        bool rbd = true; if (ne) for (int i = 0; i < n && rbd; ++i) for (int s = -1; s <= 1; s += 2) { Vec a(n); a[i] = s; if (!ref::supremum(n, SA, a).bounded) rbd = false; }
        if (!(ok = pred("is_bounded", A.is_bounded(), rbd, false, ctxA))) return;
        if (!(ok = pred("is_topologically_closed", A.is_topologically_closed(), true, false, ctxA))) return;
      } else { (void) A.is_universe(); (void) A.is_bounded(); }
      (void) A.is_discrete();
      break; }
    case 1: case 2: { qn = "binary_preds"; tr(c.pre + ".binary_preds(#" + std::to_string(c.bi) + ")"); hx::count("q.binary");
      bool rc = sys_included(n, SB, SA), rcb = sys_included(n, SA, SB);
      if (!(ok = pred("contains", A.contains(B), rc, true, ctxAB))) return;
      bool sc = A.strictly_contains(B);
      if (ex) { if (!(ok = pred("strictly_contains", sc, rc && !rcb, false, ctxAB))) return; }
      else if (sc) { if (!(ok = pred("strictly_contains", sc, rc, true, ctxAB))) return; }
      Sys T = SA; T.insert(T.end(), SB.begin(), SB.end());
      if (!(ok = pred("is_disjoint_from", A.is_disjoint_from(B), !ref::feasible(n, T), true, ctxAB))) return;
      bool eq = A.equals(B);
      if (ex) { if (!(ok = pred("equals", eq, rc && rcb, false, ctxAB))) return; }
      break; }
    case 3: case 4: { Constraint cn = coin(40) ? rep_con(n, g.kind) : any_con(n, true);
      qn = "relation_with_constraint"; tr(c.pre + ".relation_with(" + str(cn) + ")"); hx::count("q.relation_with_c");
      Poly_Con_Relation r = A.relation_with(cn);
      Con rc = ref::conv(cn, n); Sys T = SA; T.push_back(rc);
      bool meet = ref::feasible(n, T); bool inc = sys_included(n, SA, Sys(1, rc));
      Con hyp = rc; hyp.rel = ref::EQ; bool sat = sys_included(n, SA, Sys(1, hyp));
      std::string d = str(cn) + " -> " + str(r) + "; " + ctxA;
      if (!(ok = pred("relation_with_c.is_disjoint", r.implies(Poly_Con_Relation::is_disjoint()), !meet, true, d))) return;
      if (!(ok = pred("relation_with_c.is_included", r.implies(Poly_Con_Relation::is_included()), inc, true, d))) return;
      if (!(ok = pred("relation_with_c.saturates", r.implies(Poly_Con_Relation::saturates()), sat, true, d))) return;
      if (ex && !(ok = pred("relation_with_c.strictly_intersects", r.implies(Poly_Con_Relation::strictly_intersects()), meet && !inc, false, d))) return;
      break; }
    case 5: { int v = rnd(0, n - 1); qn = "constrains"; tr(c.pre + ".constrains(" + str(Variable(v)) + ")"); hx::count("q.constrains");
      bool cc = A.constrains(Variable(v));
      if (!ne || !ex) break;   // documentation silent about empty elements
      ok = pred("constrains", cc, !is_cylinder_along(n, SA, v), false, ctxA);
      break; }
    case 6: { qn = "affine_dimension"; tr(c.pre + ".affine_dimension()"); hx::count("q.affine_dimension");
      int ad = A.affine_dimension();
      if (!ex) break;
      int rad = ne ? ref_affine_dim(n, SA) : 0; checked();
      if (ad != rad) { violation(key("C04.pred", "affine_dimension"), "PPL " + std::to_string(ad) + " LP " + std::to_string(rad) + "; " + ctxA); ok = false; }
      break; }
    case 7: case 8: { // bounds / optima
      Linear_Expression e = coin(40) ? Linear_Expression(rep_con(n, g.kind).expression()) + small_coeff(4) : rexpr(n, 30); bool mx = coin();
      qn = mx ? "maximize" : "minimize"; tr(c.pre + "." + qn + "(" + str(e) + ")"); hx::count("q.max_min");
      Coefficient num, den, num2, den2; bool att = false, att2 = false; Generator gp(point());
      bool bf = mx ? A.bounds_from_above(e) : A.bounds_from_below(e);
      bool o1 = mx ? A.maximize(e, num, den, att, gp) : A.minimize(e, num, den, att, gp);
      bool o2 = mx ? A.maximize(e, num2, den2, att2) : A.minimize(e, num2, den2, att2);
      Vec ea; Q eb; ref::conv(e, n, ea, eb); Vec oa = ea; if (!mx) for (size_t i = 0; i < ea.size(); ++i) ea[i] = -ea[i];
      ref::SupResult s = ref::supremum(n, SA, ea);
      std::string d = str(e) + "; " + ctxA;
      if (!ne) break;   // silent on empty elements (bounds_*), and a sound shape may not know it is empty
      if (!(ok = pred(mx ? "bounds_from_above" : "bounds_from_below", bf, s.bounded, true, d))) return;
      if (!(ok = pred(qn + "_with_point.status", o1, s.bounded, true, d))) return;
      if (!(ok = pred(qn + ".status", o2, s.bounded, true, d))) return;
      Q rv = mx ? Q(s.sup + eb) : Q(-s.sup + eb);
      std::string vcls; { std::vector<Q> cf; Q ih = 0; qvec(e, n, Coefficient(1), cf, ih); vcls = mag_class(std::vector<const Sys*>{ &SA }, cf, ih); }
      for (int w = 0; w < 2 && ok; ++w) {
        if (!(w ? o2 : o1)) continue;
        if ((w ? den2 : den) == 0) { violation(key("C03.definite", qn + ".value"), "zero denominator; " + d); ok = false; break; }
        Q val = ref::toQ(w ? num2 : num) / ref::toQ(w ? den2 : den); checked();
        bool unsafe = mx ? (val < rv) : (val > rv);
        if (unsafe) { violation(key("C03.definite", qn + ".value", vcls), "reported " + qs(val) + " but the true " + (mx ? "supremum" : "infimum") + " is " + qs(rv) + "; " + d); ok = false; break; }
        if (ex && val != rv) { violation(key("C04.pred", qn + ".value"), "reported " + qs(val) + ", LP " + qs(rv) + "; " + d); ok = false; break; }
        if (ex && !(w ? att2 : att)) { violation(key("C04.pred", qn + ".attained"), "closed element but optimum reported as not attained; " + d); ok = false; break; }
      }
      if (ok && ex && o1) { // witness: a point of the element where the optimum is attained
        Gen rg = ref::conv(gp, n); checked();
        if (!gp.is_point() || !ref::sat(SA, rg.v) || ref::dot(oa, rg.v) + eb != rv) { violation(key("C04.pred", qn + ".witness"), "witness " + str(gp) + " is not a point of the element attaining the optimum; " + d); ok = false; }
      }
      break; }
    default: { // relation with generators and congruences
      if (coin()) {
        Generator gg = rand_gen(n, false, false); qn = "relation_with_generator"; tr(c.pre + ".relation_with(" + str(gg) + ")"); hx::count("q.relation_with_g");
        Poly_Gen_Relation r = A.relation_with(gg);
        if (!ex) break;
        Gen rg = ref::conv(gg, n); bool subs;
        if (!ne) subs = false;
        else if (rg.kind == Gen::POINT || rg.kind == Gen::CLOSURE_POINT) subs = ref::sat(SA, rg.v);
        else { subs = true; for (size_t i = 0; i < SA.size() && subs; ++i) { Q v = ref::dot(SA[i].a, rg.v); if (rg.kind == Gen::LINE || SA[i].rel == ref::EQ) subs = (v == 0); else subs = (v <= 0); } }
        ok = pred("relation_with_g.subsumes", r.implies(Poly_Gen_Relation::subsumes()), subs, false, str(gg) + "; " + ctxA);
      } else {
        Congruence cg = rand_cg(n, 4); qn = "relation_with_congruence"; tr(c.pre + ".relation_with(" + str(cg) + ")"); hx::count("q.relation_with_cg");
        Poly_Con_Relation r = A.relation_with(cg);
        Vec ea(n); for (int d = 0; d < n && d < (int) cg.space_dimension(); ++d) ea[d] = ref::toQ(cg.coefficient(Variable(d)));
        Q eb = ref::toQ(cg.inhomogeneous_term()); Q m = ref::toQ(cg.modulus());
        bool included, disjoint;
        if (!ne) { included = true; disjoint = true; }
        else {
          Vec nea(n); for (int i = 0; i < n; ++i) nea[i] = -ea[i];
          ref::SupResult hi = ref::supremum(n, SA, ea), lo = ref::supremum(n, SA, nea);
          bool constant = hi.bounded && lo.bounded && hi.sup == -lo.sup;
          if (m == 0) { // equality
            Q z = -eb; included = constant && hi.sup == z;
            disjoint = (hi.bounded && hi.sup < z) || (lo.bounded && -lo.sup > z);
          }
          else if (constant) { Q kq = (hi.sup + eb) / m; included = (kq.get_den() == 1); disjoint = !included; }
          else {
            included = false; bool found;
            if (!lo.bounded || !hi.bounded) found = true;
            else { Q l = -lo.sup + eb, u = hi.sup + eb; Q kl = l / m; mpz_class kc; mpz_cdiv_q(kc.get_mpz_t(), kl.get_num_mpz_t(), kl.get_den_mpz_t()); Q cand = Q(kc) * m; found = (cand <= u); }
            disjoint = !found;
          }
        }
        std::string d = str(cg) + " -> " + str(r) + "; " + ctxA;
        if (!(ok = pred("relation_with_cg.is_disjoint", r.implies(Poly_Con_Relation::is_disjoint()), disjoint, true, d))) return;
        if (!(ok = pred("relation_with_cg.is_included", r.implies(Poly_Con_Relation::is_included()), included, true, d))) return;
        if (ex && !(ok = pred("relation_with_cg.strictly_intersects", r.implies(Poly_Con_Relation::strictly_intersects()), !disjoint && !included, false, d))) return;
      }
      break; }
    }
  });
  if (nontrivial(c.clsA)) hx::distinct("query|" + g.inst + "|" + qn + "|" + c.stw + "|" + c.clsA);
  return done && ok;
}

// ---------- observers that move the internal state; the denotation must not move ----------
static bool observers(StepCtx& c) {
  const int n = c.n; Shape& A = c.A(); const Sys& SA = c.SA;
  int k = rnd(0, 6); const char* nm[7] = { "minimized_constraints", "constraints", "congruences", "minimized_congruences", "is_empty", "OK", "misc" };
  std::string op = std::string("observe:") + nm[k];
  tr(c.pre + "." + op); hx::count(std::string("obs.") + nm[k]);
  if (nontrivial(c.clsA)) hx::distinct("obs|" + g.inst + "|" + nm[k] + "|" + c.stw + "|" + c.clsA);
  bool ok = true;
  std::string ctxA = "A=" + cut(show(SA), 600);
  if (!guarded(op, [&]() {
    if (k == 0 || k == 1) {
      Constraint_System cs = k == 0 ? A.minimized_constraints() : A.constraints();
      Sys M = ref::conv(cs, n);
      ok = check_sound(nm[k], "", ref::esys_of(SA, n), M, ctxA + " reported " + cut(show(M), 500));
      if (ok && g.ti.exact) { checked(); if (!sys_included(n, M, SA)) { violation(key("C04.exact", nm[k]), "reported system denotes a larger set; " + ctxA + " reported " + cut(show(M), 500)); ok = false; } }
    } else if (k == 2 || k == 3) {
      Congruence_System cg = k == 2 ? A.congruences() : A.minimized_congruences();
      for (Congruence_System::const_iterator i = cg.begin(); i != cg.end() && ok; ++i) {
        if (!i->is_equality()) { if (i->is_inconsistent()) { if (ref::feasible(n, SA)) { violation(key("C03.definite", nm[k]), "inconsistent congruence reported for a non-empty element; " + ctxA); ok = false; } } continue; }
        Vec a(n); for (int d = 0; d < n && d < (int) i->space_dimension(); ++d) a[d] = ref::toQ(i->coefficient(Variable(d))); Q b = ref::toQ(i->inhomogeneous_term());
        checked();
        if (!sys_included(n, SA, Sys(1, Con(a, Q(-b), ref::EQ)))) { violation(key("C03.definite", nm[k]), "reported equality " + str(*i) + " does not hold on the element; " + ctxA); ok = false; }
      }
    } else if (k == 4) (void) A.is_empty();
    else if (k == 5) {
      // OK() re-closes a copy of a matrix marked closed and compares: with rounded or saturating bounds the closure is not a
      // fixpoint of itself, so a false answer is not evidence against C03 (which speaks about point sets only) - it is counted.
      checked(); bool inexact_T = g.ti.bits != 0 || g.ti.fdigits != 0;
      if (!A.OK()) { if (inexact_T) hx::count("ok_false.inexact_T"); else { violation(key("C03.sound", "OK"), "OK() is false; " + ctxA); ok = false; } } }
    else A.misc_observers();
  })) return false;
  if (!ok) return false;
  Sys now; std::string w; if (!status_word(A, w, op) || !observe(A, now, op)) return false;
  if (!check_sound("observer", "", ref::esys_of(SA, n), now, std::string(nm[k]) + " lost points; " + ctxA + " now " + cut(show(now), 500))) return false;
  if (g.ti.exact) { checked(); if (!sys_included(n, now, SA)) { violation(key("C04.exact", "observer"), std::string(nm[k]) + " changed the denoted set; " + ctxA + " now " + cut(show(now), 500)); return false; } }
  return true;
}

// ---------- converting constructors ----------
// The source's denotation is known by construction: either a constraint list we inserted
// ourselves (Sys) or a generator list (Gens, hull / lattice semantics evaluated arithmetically).
struct GenTruth { Gens gs; bool lattice; };   // lattice: RAY entries are grid parameters (integer multiples)
static bool gens_sup(const GenTruth& G, const Vec& d, bool& nonempty, bool& bounded, Q& sup) {
  nonempty = false; bounded = true; bool first = true;
  for (size_t i = 0; i < G.gs.size(); ++i) {
    const Gen& x = G.gs[i]; Q v = ref::dot(d, x.v);
    if (x.kind == Gen::POINT || x.kind == Gen::CLOSURE_POINT) { nonempty = true; if (first || v > sup) { sup = v; first = false; } }
    else if (x.kind == Gen::LINE || G.lattice) { if (v != 0) bounded = false; }
    else if (v > 0) bounded = false;
  }
  return nonempty;
}
static bool ctor_check_gens(const std::string& op, const GenTruth& G, int n, const Sys& RC, bool best, const std::string& ctx) {
  checked(); hx::count("ctor_checks");
  // soundness: every constraint of the result holds on the generated set (plain arithmetic)
  for (size_t i = 0; i < RC.size(); ++i) {
    bool ne, bd; Q s = 0; Vec a = RC[i].a; a.resize(n);
    if (!gens_sup(G, a, ne, bd, s)) break;
    bool bad = !bd || s > RC[i].b;
    if (!bad && RC[i].rel == ref::EQ) { Vec na(n); for (int d = 0; d < n; ++d) na[d] = -a[d]; bool ne2, bd2; Q s2 = 0; gens_sup(G, na, ne2, bd2, s2); bad = !bd2 || -s2 < RC[i].b; }
    if (bad) { violation(key("C03.sound", op), "source point set violates result constraint " + cut(show(RC[i]), 300) + "; " + cut(ctx)); return false; }
  }
  if (!best || !g.ti.exact) return true;
  bool ne, bd; Q s = 0; bool src_nonempty = gens_sup(G, Vec(n), ne, bd, s);
  bool rne = ref::feasible(n, RC);
  if (!src_nonempty) { if (rne) { violation(key("C04.best", op), "source empty, result not; " + cut(ctx)); return false; } return true; }
  std::vector<Vec> dirs = template_dirs(g.kind, n);
  for (size_t di = 0; di < dirs.size(); ++di) {
    gens_sup(G, dirs[di], ne, bd, s);
    ref::SupResult sr = ref::supremum(n, RC, dirs[di]);
    if (bd != sr.bounded || (bd && s != sr.sup)) { violation(key("C04.best", op), "direction " + show(dirs[di]) + ": sup over the source " + (bd ? qs(s) : std::string("+inf")) + ", over the result " + (sr.bounded ? qs(sr.sup) : std::string("+inf")) + "; " + cut(ctx)); return false; }
  }
  return true;
}
static const char* const CCN[3] = { "POLYNOMIAL", "SIMPLEX", "ANY" };
static Gens conv_gens(const std::vector<Generator>& gv, int n) { Gens G; for (size_t i = 0; i < gv.size(); ++i) G.push_back(ref::conv(gv[i], n)); return G; }

static bool constructors(StepCtx& c) {
  const int n = c.n; Shape& A = c.A();
  int which = rnd(0, 9); Complexity_Class cc = (Complexity_Class) rnd(0, 2);
  SP R; std::string op; std::ostringstream t; bool ok = true;
  Sys truth; GenTruth gt; gt.lattice = false; bool by_gens = false; Mode mode = SOUND_ONLY; std::string ctx;
  Kind other = g.kind == K_BD ? K_OCT : K_BD;
  if (which <= 2) { // from a C / NNC polyhedron described by constraints or by generators
    bool nnc = coin(); bool fromg = coin(35);
    op = std::string(nnc ? "from_NNC_Polyhedron" : "from_C_Polyhedron") + "." + CCN[cc];
    if (!fromg) {
      std::vector<Constraint> cv; int k = rnd(0, 4); for (int i = 0; i < k; ++i) cv.push_back(coin(35) ? rep_con(n, K_OCT) : any_con(n, nnc));
      t << op << "(constraints " << str_cons(cv) << ")"; tr(c.pre + " = " + t.str());
      for (size_t i = 0; i < cv.size(); ++i) truth.push_back(ref::conv(cv[i], n));
      ok = guarded(op, [&]() {
        if (nnc) { NNC_Polyhedron ph(n); for (size_t i = 0; i < cv.size(); ++i) ph.add_constraint(cv[i]); if (coin(30)) (void) ph.minimized_generators(); R.reset(A.from_polyhedron(ph, cc)); }
        else { C_Polyhedron ph(n); for (size_t i = 0; i < cv.size(); ++i) ph.add_constraint(cv[i]); if (coin(30)) (void) ph.minimized_generators(); R.reset(A.from_polyhedron(ph, cc)); }
      });
    } else {
      std::vector<Generator> gv; int k = rnd(1, 4); gv.push_back(rand_gen(n, false, true)); for (int i = 1; i < k; ++i) gv.push_back(rand_gen(n, nnc, false));
      t << op << "(generators"; for (size_t i = 0; i < gv.size(); ++i) t << " " << str(gv[i]); t << ")"; tr(c.pre + " = " + t.str());
      gt.gs = conv_gens(gv, n); by_gens = true;
      ok = guarded(op, [&]() {
        Generator_System gs; for (size_t i = 0; i < gv.size(); ++i) gs.insert(gv[i]);
        if (nnc) { NNC_Polyhedron ph(gs); if ((int) ph.space_dimension() < n) ph.add_space_dimensions_and_project(n - ph.space_dimension()); if (coin(30)) (void) ph.minimized_constraints(); R.reset(A.from_polyhedron(ph, cc)); }
        else { C_Polyhedron ph(gs); if ((int) ph.space_dimension() < n) ph.add_space_dimensions_and_project(n - ph.space_dimension()); if (coin(30)) (void) ph.minimized_constraints(); R.reset(A.from_polyhedron(ph, cc)); }
      });
    }
    mode = (cc == ANY_COMPLEXITY) ? BEST : SOUND_ONLY;
  }
  else if (which == 3) { // from a generator system
    op = "from_Generator_System";
    std::vector<Generator> gv; int k = rnd(1, 4); gv.push_back(rand_gen(n, false, true)); for (int i = 1; i < k; ++i) gv.push_back(rand_gen(n, coin(20), false));
    t << op << "("; for (size_t i = 0; i < gv.size(); ++i) t << " " << str(gv[i]); t << ")"; tr(c.pre + " = " + t.str());
    gt.gs = conv_gens(gv, n); by_gens = true; mode = BEST;
    ok = guarded(op, [&]() { Generator_System gs; for (size_t i = 0; i < gv.size(); ++i) gs.insert(gv[i]); R.reset(A.from_generators(gs)); if (R->dim() < n) R->add_space_dimensions_and_project(n - R->dim()); });
  }
  else if (which == 4) { // from a grid
    op = std::string("from_Grid.") + CCN[cc]; by_gens = true; gt.lattice = true; mode = BEST;
    Grid gr(n, EMPTY); std::ostringstream d;
    int k = coin(12) ? 0 : rnd(1, 3);
    for (int i = 0; i < k; ++i) {
      Linear_Expression e; for (int j = 0; j < n; ++j) if (!coin(35)) e += rnd(-4, 4) * Variable(j);
      Gen x; x.v.assign(n, Q(0));
      if (i == 0) { int dv = rnd(1, 3); gr.add_grid_generator(grid_point(e, dv)); x.kind = Gen::POINT; for (int j = 0; j < n; ++j) x.v[j] = ref::toQ(e.coefficient(Variable(j))) / dv; d << " point(" << str(e) << ")/" << dv; }
      else {
        if (n == 0) continue;
        if (e.all_homogeneous_terms_are_zero()) e += Variable(rnd(0, n - 1));
        if (coin(70)) { int dv = rnd(1, 3); gr.add_grid_generator(parameter(e, dv)); x.kind = Gen::RAY; for (int j = 0; j < n; ++j) x.v[j] = ref::toQ(e.coefficient(Variable(j))) / dv; d << " parameter(" << str(e) << ")/" << dv; }
        else { gr.add_grid_generator(grid_line(e)); x.kind = Gen::LINE; for (int j = 0; j < n; ++j) x.v[j] = ref::toQ(e.coefficient(Variable(j))); d << " line(" << str(e) << ")"; }
      }
      gt.gs.push_back(x);
    }
    t << op << "(" << d.str() << ")"; tr(c.pre + " = " + t.str());
    ok = guarded(op, [&]() { if (coin()) (void) gr.minimized_congruences(); R.reset(A.from_grid(gr, cc)); });
  }
  else if (which == 5) { // from a rational box (open and closed bounds)
    op = std::string("from_Rational_Box.") + CCN[cc]; mode = BEST;
    std::vector<Constraint> cv; int k = n == 0 ? 0 : rnd(0, 4);
    for (int i = 0; i < k; ++i) { mpz_class a, b; rand_bound(a, b); Linear_Expression e = Coefficient(a) * Variable(rnd(0, n - 1)); int r = rnd(0, 5); Coefficient cb(b); cv.push_back(r == 0 ? Constraint(e == cb) : r == 1 ? Constraint(e < cb) : r == 2 ? Constraint(e > cb) : r == 3 ? Constraint(e >= cb) : Constraint(e <= cb)); }
    t << op << "(" << str_cons(cv) << ")"; tr(c.pre + " = " + t.str());
    for (size_t i = 0; i < cv.size(); ++i) truth.push_back(ref::conv(cv[i], n));
    ok = guarded(op, [&]() { Rational_Box bx(n); for (size_t i = 0; i < cv.size(); ++i) bx.add_constraint(cv[i]); R.reset(A.from_box(bx, cc)); });
  }
  else if (which == 6 || which == 7) { // from the other shape domain (same T) / the same domain over another coefficient type
    bool dom = which == 6; op = std::string(dom ? "from_other_domain." : "from_other_coefficient.") + CCN[cc]; mode = BEST;
    std::vector<Constraint> cv; int k = rnd(0, 4); for (int i = 0; i < k; ++i) cv.push_back(rep_con(n, dom ? other : g.kind));
    Constraint_System cs; for (size_t i = 0; i < cv.size(); ++i) cs.insert(cv[i]);
    t << op << "(" << str_cons(cv) << ")"; tr(c.pre + " = " + t.str());
    Constraint_System seen;
    ok = guarded(op, [&]() { R.reset(dom ? A.from_other_domain(n, cs, cc, seen) : A.from_other_coefficient(n, cs, cc, seen)); });
    if (ok) truth = ref::conv(seen, n);   // the source's own denotation
  }
  else { // from constraint / congruence systems (representable constraints only): exact
    bool cgs = which == 9; op = cgs ? "from_Congruence_System" : "from_Constraint_System"; mode = EXACT;
    std::vector<Constraint> cv; int k = rnd(0, 4); for (int i = 0; i < k; ++i) cv.push_back(rep_con(n, g.kind, cgs ? 100 : 15));
    t << op << "(" << str_cons(cv) << ")"; tr(c.pre + " = " + t.str());
    for (size_t i = 0; i < cv.size(); ++i) truth.push_back(ref::conv(cv[i], n));
    ok = guarded(op, [&]() {
      if (cgs) { Congruence_System s; for (size_t i = 0; i < cv.size(); ++i) { Linear_Expression e(cv[i].expression()); s.insert((e %= 0) / 0); } R.reset(A.from_congruences(s)); }
      else { Constraint_System s; for (size_t i = 0; i < cv.size(); ++i) s.insert(cv[i]); R.reset(A.from_constraints(s)); }
      if (R->dim() < n) R->add_space_dimensions_and_embed(n - R->dim());
    });
  }
  hx::count("op." + op.substr(0, op.find('.'))); hx::distinct("ctor|" + g.inst + "|" + op);
  if (!ok) return false;
  Sys RC; std::string w; if (!status_word(*R, w, op) || !observe(*R, RC, op)) return false;
  if (R->dim() != n) { violation(key("C03.sound", op, "dimension"), "wrong space dimension"); return false; }
  ctx = t.str() + " R=" + cut(show(RC), 500);
  if (by_gens) ok = ctor_check_gens(op, gt, n, RC, mode != SOUND_ONLY, ctx);
  else {
    std::string cls = mag_class(std::vector<const Sys*>{ &truth }, std::vector<Q>(1, Q(1)), Q(0));
    ok = verify(op, cls, "", mode, std::vector<ESys>(1, ref::esys_of(truth, n)), n, RC, ctx);
  }
  if (!ok) return false;
  // build further state on the converted object
  if (coin(60)) { c.pool[c.ai] = std::move(R); c.lastop[c.ai] = op; }
  return true;
}

// ---------- dimension-changing operators (on a scratch copy) ----------
static bool dims_op(StepCtx& c) {
  const int n = c.n; const Sys& SA = c.SA; const Sys& SB = c.SB;
  SP Tm(c.A().clone()); Shape& X = *Tm;
  int which = rnd(0, 7); std::string op; std::ostringstream t; std::vector<ESys> pieces; Mode mode = EXACT; int rn = n; bool usesB = false;
  std::function<void()> call;
  if ((which == 3 || which == 6) && n < 1) which = 0;
  if (which == 4 && n < 2) which = 1;
  if (which == 0) { int m = rnd(0, 2); bool proj = coin(); op = proj ? "add_space_dimensions_and_project" : "add_space_dimensions_and_embed"; t << "." << op << "(" << m << ")";
    call = [=, &X]() { if (proj) X.add_space_dimensions_and_project(m); else X.add_space_dimensions_and_embed(m); }; pieces.push_back(ref::def_add_dims(SA, n, m, proj)); rn = n + m; }
  else if (which == 1) { std::vector<int> keep; Variables_Set vs; for (int i = 0; i < n; ++i) { if (coin(40)) vs.insert(Variable(i)); else keep.push_back(i); }
    op = "remove_space_dimensions"; t << "." << op << "(" << str(vs) << ")"; call = [=, &X]() { X.remove_space_dimensions(vs); }; pieces.push_back(ref::def_project_onto(SA, n, keep)); rn = keep.size(); }
  else if (which == 2) { int k = rnd(0, n); std::vector<int> keep; for (int i = 0; i < k; ++i) keep.push_back(i);
    op = "remove_higher_space_dimensions"; t << "." << op << "(" << k << ")"; call = [=, &X]() { X.remove_higher_space_dimensions(k); }; pieces.push_back(ref::def_project_onto(SA, n, keep)); rn = k; }
  else if (which == 3) { int i = rnd(0, n - 1), m = rnd(0, 2); op = "expand_space_dimension"; t << "." << op << "(" << str(Variable(i)) << ", " << m << ")";
    call = [=, &X]() { X.expand_space_dimension(Variable(i), m); }; pieces.push_back(ref::def_expand(SA, n, i, m)); rn = n + m; }
  else if (which == 4) { int i = rnd(0, n - 1); std::vector<int> J; Variables_Set vs; for (int j = 0; j < n; ++j) if (j != i && coin(60)) { J.push_back(j); vs.insert(Variable(j)); }
    op = "fold_space_dimensions"; t << "." << op << "(" << str(vs) << ", " << str(Variable(i)) << ")"; call = [=, &X]() { X.fold_space_dimensions(vs, Variable(i)); };
    std::vector<int> keepidx; for (int j = 0; j < n; ++j) if (std::find(J.begin(), J.end(), j) == J.end()) keepidx.push_back(j);
    int k = keepidx.size(); rn = k; std::vector<int> srcs = J; srcs.push_back(i);
    for (size_t s = 0; s < srcs.size(); ++s) { // y_j = x_keep[j], except the destination which reads x_src
      ESys T; T.n = k; T.aux = n; int nv = k + n;
      for (size_t r = 0; r < SA.size(); ++r) T.s.push_back(ref::shift(SA[r], nv, k));
      for (int j = 0; j < k; ++j) { Vec a(nv); a[j] = 1; a[k + (keepidx[j] == i ? srcs[s] : keepidx[j])] -= 1; T.s.push_back(Con(a, Q(0), ref::EQ)); }
      pieces.push_back(T);
    }
    mode = J.empty() ? EXACT : BEST; }
  else if (which == 5) { op = "concatenate_assign"; usesB = true; t << "." << op << "(#" << c.bi << ")"; Shape& B = c.B(); call = [&X, &B]() { X.concatenate_assign(B); }; pieces.push_back(ref::def_concat(SA, n, SB, n)); rn = 2 * n; }
  else if (which == 6) { Partial_Function pf; std::vector<int> img(n, -1); std::vector<int> order; for (int j = 0; j < n; ++j) order.push_back(j); std::shuffle(order.begin(), order.end(), hx::rng());
    int k = rnd(0, n); for (int j = 0; j < k; ++j) img[order[j]] = j;
    std::ostringstream ms; for (int j = 0; j < n; ++j) if (img[j] >= 0) { pf.insert(j, img[j]); ms << j << "->" << img[j] << " "; }
    op = "map_space_dimensions"; t << "." << op << "(" << ms.str() << ")"; call = [=, &X]() { X.map_space_dimensions(pf); }; pieces.push_back(ref::def_map_dims(SA, n, img, k)); rn = k; }
  else { // dimension round trip applied to the pool object itself (moves its internal state)
    int m = rnd(1, 2); op = "embed_then_remove"; t << "." << op << "(" << m << ")"; Shape& A = c.A();
    call = [=, &A]() { A.add_space_dimensions_and_embed(m); A.remove_higher_space_dimensions(n); };
    pieces.push_back(ref::esys_of(SA, n)); Tm.reset(); }
  tr(c.pre + (Tm ? ".tmp" : "") + t.str()); hx::count("op." + op);
  if (nontrivial(c.clsA)) hx::distinct("dims|" + g.inst + "|" + op + "|" + c.stw + "|" + c.clsA);
  if (!Tm) c.lastop[c.ai] = op;
  if (!guarded(op, call)) return false;
  Shape& R = Tm ? *Tm : c.A();
  std::vector<const Sys*> margs; margs.push_back(&SA); if (usesB) margs.push_back(&SB);
  std::string cls = mag_class(margs, std::vector<Q>(), Q(0));
  Sys RC; if (!observe(R, RC, op, cls)) return false;
  if (R.dim() != rn) { violation(key("C03.sound", op, "dimension"), "space dimension " + std::to_string(R.dim()) + " instead of " + std::to_string(rn)); return false; }
  std::string cls04 = (which == 5 && c.clsB == "empty") ? "argument-empty" : "";
  return verify(op, cls, cls04, mode, pieces, rn, RC, "A=" + cut(show(SA), 500) + (usesB ? " B=" + cut(show(SB), 500) : "") + " R=" + cut(show(RC), 500));
}

// ---------- history independence (unbounded rationals only) ----------
static bool twin_check(StepCtx& c) {
  const int n = c.n; Shape& A = c.A(); const Sys& SA = c.SA;
  int how = rnd(0, 3); SP T; bool ok = true;
  const char* nm[4] = { "minimized_constraints", "shuffled_constraints", "closed_copy", "generators_of_polyhedron" };
  tr(c.pre + ".twin(" + nm[how] + ")"); hx::count("twins");
  if (nontrivial(c.clsA)) hx::distinct("twin|" + g.inst + "|" + nm[how] + "|" + c.stw + "|" + c.clsA);
  if (!guarded("twin", [&]() {
    SP cp(A.clone());
    if (how == 0) { T.reset(A.make(n, false)); T->add_constraints(cp->minimized_constraints()); }
    else if (how == 1) { Constraint_System cs = cp->constraints(); std::vector<Constraint> v(cs.begin(), cs.end()); std::shuffle(v.begin(), v.end(), hx::rng());
      T.reset(A.make(n, false)); for (size_t i = 0; i < v.size(); ++i) { T->add_constraint(v[i]); if (coin(30)) { Linear_Expression e(v[i].expression()); e *= rnd(2, 3); if (v[i].is_equality()) T->add_constraint(e == 0); else T->add_constraint(e >= 0); } } }
    else if (how == 2) { T.reset(A.clone()); (void) T->is_empty(); if (coin()) (void) T->minimized_constraints(); }
    else { C_Polyhedron ph(cp->constraints()); if ((int) ph.space_dimension() < n) ph.add_space_dimensions_and_embed(n - ph.space_dimension()); (void) ph.minimized_generators(); T.reset(A.from_polyhedron(ph, ANY_COMPLEXITY)); }
  })) return false;
  Sys ST; if (!observe(*T, ST, "twin")) return false;
  checked();
  if (!sys_equal(n, SA, ST)) { violation(key("C04.exact", std::string("twin.") + nm[how]), "rebuilt element denotes a different set: " + cut(show(ST), 500) + " vs " + cut(show(SA), 500)); return false; }
  std::string ctx = std::string("twin built via ") + nm[how] + "; A=" + cut(show(SA), 600) + " twin=" + cut(show(ST), 600);
  if (!guarded("twin", [&]() {
    SP X(A.clone());
    std::ostringstream a, b;
    if (!X->equals(*T) || !T->equals(*X)) { violation(key("C04.pred", "equals", "twin"), "equal point sets compare different; " + ctx); ok = false; return; }
    if (!X->contains(*T) || !T->contains(*X) || X->strictly_contains(*T) || T->strictly_contains(*X)) { violation(key("C04.pred", "contains", "twin"), "containment between equal point sets answered wrongly; " + ctx); ok = false; return; }
    bool ne = ref::feasible(n, SA);
    a << X->is_empty() << X->is_universe() << X->is_bounded() << X->affine_dimension() << X->is_disjoint_from(*T);
    b << T->is_empty() << T->is_universe() << T->is_bounded() << T->affine_dimension() << T->is_disjoint_from(*X);
    if (ne) for (int i = 0; i < n; ++i) { a << X->constrains(Variable(i)); b << T->constrains(Variable(i)); }
    for (int k = 0; k < 3; ++k) {
      Linear_Expression e = rexpr(n, 30); Coefficient n1, d1, n2, d2; bool m1, m2;
      bool o1 = X->maximize(e, n1, d1, m1), o2 = T->maximize(e, n2, d2, m2);
      a << o1; b << o2; if (o1 && o2) { a << ref::toQ(n1) / ref::toQ(d1) << m1; b << ref::toQ(n2) / ref::toQ(d2) << m2; }
      Constraint cn = any_con(n, true); a << str(X->relation_with(cn)); b << str(T->relation_with(cn));
    }
    checked();
    if (a.str() != b.str()) { violation(key("C04.pred", "answers", "twin"), "original answers " + a.str() + " twin answers " + b.str() + "; " + ctx); ok = false; }
  })) return false;
  return ok;
}

// ---------- one case ----------
static SP build_initial(const Entry& E, int n, std::string& how_text) {
  SP p; int how = rnd(0, 9); std::ostringstream o;
  if (how < 5) { p.reset(E.make(n, false)); int k = rnd(0, 5); std::vector<Constraint> cv; for (int j = 0; j < k; ++j) { cv.push_back(rep_con(n, g.kind)); p->add_constraint(cv.back()); } o << "{" << str_cons(cv) << "}"; }
  else if (how < 7) { p.reset(E.make(n, false)); int k = rnd(0, 4); std::vector<Constraint> cv; Constraint_System cs; for (int j = 0; j < k; ++j) { cv.push_back(coin(60) ? rep_con(n, g.kind) : any_con(n, true)); cs.insert(cv.back()); } p->refine_with_constraints(cs); o << "refined{" << str_cons(cv) << "}"; }
  else if (how < 9) { SP u(E.make(n, false)); Generator_System gs; int k = rnd(1, 4); std::ostringstream d; for (int j = 0; j < k; ++j) { Generator x = rand_gen(n, false, j == 0); gs.insert(x); d << " " << str(x); } p.reset(u->from_generators(gs)); if (p->dim() < n) p->add_space_dimensions_and_project(n - p->dim()); o << "gens{" << d.str() << " }"; }
  else { bool e = coin(); p.reset(E.make(n, e)); o << (e ? "EMPTY" : "UNIVERSE"); }
  how_text = o.str();
  return p;
}

static void run_case_for(const Entry& E) {
  g.E = &E; g.inst = E.inst; g.kind = E.kind; g.ti = E.ti;
  const std::string profile = hx::opt().profile;
  int limit_pct = (profile == "limits") ? 100 : (E.ti.exact ? 15 : 40);
  g.limit_case = coin(limit_pct);
  int dk = rnd(0, 99); int n = dk < 5 ? 0 : dk < 25 ? 1 : dk < 65 ? 2 : 3;
  if (hx::opt().thorough && dk >= 92) n = 4;
  const int NP = 3;
  std::vector<SP> pool(NP); std::vector<std::string> lastop(NP, "construction");
  hx::count("cases." + E.short_name);
  {
    std::ostringstream o; o << E.inst << (g.limit_case ? " [limits]" : "") << " n=" << n << " init:";
    bool ok = guarded("construction", [&]() { for (int i = 0; i < NP; ++i) { std::string h; pool[i] = build_initial(E, n, h); o << " #" << i << "=" << h; } });
    tr(o.str());
    if (!ok) return;
  }
  int steps = rnd(4, 12);
  for (int stp = 0; stp < steps && !hx::st().case_tainted; ++stp) {
    hx::count("steps");
    StepCtx c(pool, lastop); c.n = n; c.ai = rnd(0, NP - 1); c.bi = rnd(0, NP - 1);
    if (!status_word(c.A(), c.stw, lastop[c.ai])) return;
    if (!observe(c.A(), c.SA, lastop[c.ai]) || !observe(c.B(), c.SB, lastop[c.bi])) return;
    hx::count("status." + std::string(g.kind == K_BD ? "bd." : "oct.") + c.stw);
    c.clsA = shape_class(n, c.SA); c.clsB = shape_class(n, c.SB);
    { std::ostringstream pre; pre << " | #" << c.ai; c.pre = pre.str(); }
    int w_mut = 52, w_query = 15, w_obs = 8, w_ctor = 10, w_dims = 8, w_copy = 3, w_twin = 4;
    if (profile == "exact") { w_mut = 40; w_query = 25; w_twin = 10; w_obs = 7; w_ctor = 8; w_dims = 7; w_copy = 3; }
    if (!E.ti.exact) { w_mut += w_twin; w_twin = 0; }
    int kind = rnd(0, w_mut + w_query + w_obs + w_ctor + w_dims + w_copy + w_twin - 1);
    bool ok;
    if (kind < w_mut) ok = mutate(c);
    else if ((kind -= w_mut) < w_query) {
      ok = queries(c);
      if (ok) { // queries are observers: no point may disappear (and over rationals nothing may change)
        Sys now; if (!observe(c.A(), now, "query")) return;
        ok = check_sound("query", "", ref::esys_of(c.SA, n), now, "a query changed its receiver");
        if (ok && E.ti.exact) { checked(); if (!sys_included(n, now, c.SA)) { violation(key("C04.exact", "query"), "a query changed the denoted set"); ok = false; } }
      }
    }
    else if ((kind -= w_query) < w_obs) ok = observers(c);
    else if ((kind -= w_obs) < w_ctor) ok = constructors(c);
    else if ((kind -= w_ctor) < w_dims) ok = dims_op(c);
    else if ((kind -= w_dims) < w_copy) {
      int how = rnd(0, 2); ok = true;
      tr(c.pre + (how == 0 ? " = copy(#" : how == 1 ? " = #" : ".m_swap(#") + std::to_string(c.bi) + ")"); hx::count("op.copy_assign_swap");
      ok = guarded("copy", [&]() { if (how == 0) { if (c.ai != c.bi) pool[c.ai].reset(pool[c.bi]->clone()); } else if (how == 1) pool[c.ai]->assign(*pool[c.bi]); else pool[c.ai]->m_swap(*pool[c.bi]); });
      if (ok) { Sys RA; if (!observe(*pool[c.ai], RA, "copy")) return; ok = check_sound("copy_assign_swap", "", ref::esys_of(c.SB, n), RA, "copy/assignment/swap lost points of its source"); if (how == 2) std::swap(lastop[c.ai], lastop[c.bi]); else lastop[c.ai] = lastop[c.bi]; }
    }
    else ok = twin_check(c);
    if (!ok) return;
  }
}

static const Entry* find_entry(const std::string& name) {
  std::vector<Entry>& t = table();
  for (size_t i = 0; i < t.size(); ++i) if (t[i].short_name == name || t[i].inst == name) return &t[i];
  return 0;
}

int main(int argc, char** argv) {
  std::vector<Entry>& t = table();
  std::sort(t.begin(), t.end(), [](const Entry& a, const Entry& b) { return a.short_name < b.short_name; });
  return hx::main_loop(argc, argv, [&](uint64_t) {
    // C04 is stated over unbounded rationals only: default to the two mpq instantiations for --prop C04
    std::string inst = hx::opt().gets("inst", hx::opt().prop == "C04" ? "rational" : "all");
    const Entry* e;
    if (inst == "all") e = &t[(size_t) hx::st().cur_case % t.size()];
    else if (inst == "rational") { std::vector<const Entry*> r; for (size_t i = 0; i < t.size(); ++i) if (t[i].ti.exact) r.push_back(&t[i]); e = r[(size_t) hx::st().cur_case % r.size()]; }
    else { e = find_entry(inst); if (!e) { fprintf(stderr, "unknown inst %s; known:", inst.c_str()); for (size_t i = 0; i < t.size(); ++i) fprintf(stderr, " %s", t[i].short_name.c_str()); fprintf(stderr, "\n"); exit(2); } }
    run_case_for(*e);
  }, []() { hx::count("lp_solves", ref::lp_counters().solves); hx::count("lp_pivots", ref::lp_counters().pivots); });
}
