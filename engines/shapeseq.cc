// shapeseq — random operation histories on BD shapes and octagonal shapes over
// nine coefficient types, every step checked against the exact-LP reference model.
//
// Monitors:
//   C03.sound.<inst>.<op>[:class]     a point of the exact result (computed on the arguments'
//                                     denotations read through constraints()) is missing
//   C03.definite.<inst>.<query>       a definite answer (is_empty, contains, is_disjoint_from,
//                                     bounds_*, maximize/minimize bound, relation is_included /
//                                     is_disjoint / saturates) is false of the denoted sets
//   C03.unobservable.<inst>.<op>      constraints()/ascii_dump throw, or NaN in the matrix
//   C03.exception / C03.hang          unexpected exception / logical-time budget exceeded
//   C04.exact.<inst>.<op>[:class]     (mpq only) operation the statement calls exact is not
//   C04.best.<inst>.<op>              (mpq only) result is not the smallest element containing T
//   C04.pred.<inst>.<query>           (mpq only) predicate / query differs from the LP answer
// Instantiation: --kv inst=<short|long name>|all  (all: rotates by case index).
// Profiles: default | limits (every case draws type-limit bounds) | exact (more queries/twins).
#include "shapeseq.hh"

using namespace shapeseq;
using hx::violation; using hx::tr; using hx::checked;

namespace shapeseq { std::vector<Entry>& table() { static std::vector<Entry> t; return t; } }

typedef std::unique_ptr<Shape> SP;

struct Ctx { const Entry* E; std::string inst; Kind kind; TypeInfo ti; bool limit_case; };
static Ctx g;

static std::string cut(const std::string& s, size_t k = 900) { return s.size() > k ? s.substr(0, k) + "..." : s; }
static std::string key(const char* mon, const std::string& site, const std::string& cls = "") { return std::string(mon) + "." + g.inst + "." + site + (cls.empty() ? "" : ":" + cls); }
static std::string qs(const Q& q) { return q.get_str(); }

// ---------- value generation ----------
static mpz_class pow10z(int k) { mpz_class r; mpz_ui_pow_ui(r.get_mpz_t(), 10, k); return r; }
static mpz_class pow2z(int k) { mpz_class r; mpz_ui_pow_ui(r.get_mpz_t(), 2, k); return r; }

// A bound b/a (a >= 1): small in ordinary cases, biased towards the limits of T in limit cases.
static void rand_bound(mpz_class& a, mpz_class& b) {
  a = 1;
  const TypeInfo& t = g.ti;
  if (!g.limit_case || coin(50)) { b = rnd(-6, 6); if (coin(12)) a = rnd(2, 3); return; }
  if (t.bits) {
    mpz_class L = pow2z(t.bits - 1) - 2; int k = rnd(0, 9);
    if (k < 5) b = L - rnd(0, 6); else if (k < 7) b = L + rnd(1, 50); else if (k < 9) b = L / 2 + rnd(-3, 3); else b = L * 3;
    if (coin()) b = -b;
    if (coin(10)) a = rnd(2, 3);
    return;
  }
  if (t.fdigits) {
    int k = rnd(0, 9);
    if (k < 3) b = pow2z(t.fdigits + rnd(-1, 2)) + rnd(-1, 1);
    else if (k < 5) { b = rnd(-7, 7); a = coin() ? 3 : (coin() ? 7 : 10); }
    else if (k < 7) b = pow10z(t.maxexp10) * rnd(1, 4);
    else if (k < 9) { b = rnd(1, 5); a = pow10z(t.maxexp10 + rnd(0, 8)); }
    else b = pow10z(rnd(5, 25)) + rnd(0, 9);
    if (coin()) b = -b;
    return;
  }
  if (coin()) { b = pow10z(rnd(3, 20)) + rnd(0, 9); if (coin()) b = -b; }
  else { b = rnd(-40, 40); a = rnd(1, 7); }
}
static Coefficient rand_inhomo() {
  if (g.limit_case && coin(35)) { mpz_class a, b; rand_bound(a, b); if (a == 1) return Coefficient(b); }
  return Coefficient(small_coeff(4));
}
static Linear_Expression rexpr(int n, int pct_zero = 40) {
  Linear_Expression e;
  for (int i = 0; i < n; ++i) if (!coin(pct_zero)) e += small_coeff(3) * Variable(i);
  e += rand_inhomo();
  return e;
}
// a constraint the domain `k` represents exactly (never strict)
static Constraint rep_con(int n, Kind k, int pct_eq = 15) {
  mpz_class a, b; rand_bound(a, b);
  Linear_Expression e;
  if (n > 0) {
    int i = rnd(0, n - 1), j = rnd(0, n - 1);
    int form = (n == 1 || i == j) ? 0 : rnd(0, k == K_OCT ? 4 : 2);
    Coefficient ca(a);
    switch (form) {
    case 0: e = (coin() ? ca : Coefficient(-ca)) * Variable(i); break;
    case 1: case 2: e = ca * Variable(i) - ca * Variable(j); break;
    case 3: e = ca * Variable(i) + ca * Variable(j); break;
    default: e = -ca * Variable(i) - ca * Variable(j); break;
    }
  }
  Coefficient cb(b);
  int r = rnd(0, 99);
  if (r < pct_eq) return e == cb;
  if (r < pct_eq + 15) return e >= cb;
  return e <= cb;
}
static Constraint any_con(int n, bool strict_ok) {
  Linear_Expression e = rexpr(n);
  int k = rnd(0, strict_ok ? 9 : 6);
  if (k < 5) return e >= 0;
  if (k < 7) return e == 0;
  return e > 0;
}
static std::string str_cons(const std::vector<Constraint>& v) { std::string s; for (size_t i = 0; i < v.size(); ++i) s += (i ? ", " : "") + str(v[i]); return s; }

// ---------- observation ----------
static bool observe(const Shape& s, Sys& out, const std::string& op) {
  try { SP c(s.clone()); Constraint_System cs = c->constraints(); out = ref::conv(cs, s.dim()); return true; }
  catch (const std::exception& e) { violation(key("C03.unobservable", op), std::string("constraints() of a copy threw ") + typeid(e).name() + ": " + e.what()); return false; }
}
// status word of ascii_dump; also refuses matrices holding NaN
static bool status_word(const Shape& s, std::string& word, const std::string& op) {
  std::string text;
  try { std::ostringstream o; s.ascii_dump(o); text = o.str(); }
  catch (const std::exception& e) { violation(key("C03.unobservable", op), std::string("ascii_dump threw ") + typeid(e).name() + ": " + e.what()); return false; }
  std::string low = text; for (size_t i = 0; i < low.size(); ++i) low[i] = tolower(low[i]);
  if (low.find("nan") != std::string::npos) { violation(key("C03.unobservable", op), "NaN entry in the matrix: " + cut(text, 400)); return false; }
  size_t p = text.find("EM"); word = "?";
  if (p != std::string::npos) { size_t a = text.rfind('\n', p); a = (a == std::string::npos) ? 0 : a + 1; size_t b = text.find('\n', p); word = text.substr(a, b - a); }
  return true;
}

static bool sys_included(int n, const Sys& a, const Sys& b) { return ref::esys_in_cons(ref::esys_of(a, n), b, 0, 0); }
static bool sys_equal(int n, const Sys& a, const Sys& b) { return sys_included(n, a, b) && sys_included(n, b, a); }
static bool esys_feasible(const ESys& T) { return ref::feasible(T.n + T.aux, T.s); }
static ESys esys_empty(int n) { ESys T; T.n = n; T.aux = 0; T.s.push_back(Con(Vec(n), Q(-1), ref::LE)); return T; }

static std::string shape_class(int n, const Sys& S) {
  if (!ref::feasible(n, S)) return "empty";
  bool univ = true, eq = false;
  for (size_t i = 0; i < S.size(); ++i) { bool z = true; for (size_t j = 0; j < S[i].a.size(); ++j) if (S[i].a[j] != 0) z = false; if (!z) { univ = false; if (S[i].rel == ref::EQ) eq = true; } }
  if (univ) return "universe";
  return eq ? "proper+eq" : "proper";
}
static bool nontrivial(const std::string& c) { return c != "empty" && c != "universe"; }

// ---------- triage class of a soundness alarm (deterministic predicate on the inputs) ----------
// est = (sum |coef|) * (largest |bound| of the arguments) + |inhomogeneous|
static std::string mag_class(const std::vector<const Sys*>& args, const std::vector<Q>& coefs, const Q& inhomo) {
  const TypeInfo& t = g.ti;
  if (!t.bits && !t.fdigits) return "";
  Q M = 0, tiny = 0; bool has_tiny = false;
  for (size_t k = 0; k < args.size(); ++k) for (size_t i = 0; i < args[k]->size(); ++i) {
    const Con& c = (*args[k])[i]; Q am = 0; for (size_t j = 0; j < c.a.size(); ++j) if (abs(c.a[j]) > am) am = abs(c.a[j]);
    if (am == 0) continue;
    Q v = abs(c.b) / am; if (v > M) M = v;
    if (v != 0 && (!has_tiny || v < tiny)) { tiny = v; has_tiny = true; }
  }
  Q P = 0; for (size_t i = 0; i < coefs.size(); ++i) P += abs(coefs[i]);
  if (coefs.empty()) P = 2;   // binary lattice operations add two bounds at most
  Q est = P * M + abs(inhomo);
  if (t.bits) { Q L(pow2z(t.bits - 1) - 2); return est > L ? "overflow" : "inrange"; }
  Q big(pow2z(t.fdigits)); Q small = 1 / big;
  if (est >= big || abs(inhomo) >= big) return "extreme";
  if (has_tiny && tiny < small) return "extreme";
  return "ordinary";
}

// ---------- the oracles ----------
// exact result T (exists-form) must be inside the returned element
static bool check_sound(const std::string& op, const std::string& cls, const ESys& T, const Sys& RC, const std::string& ctx) {
  checked(); hx::count("sound_checks");
  int nv = T.n + T.aux;
  for (size_t i = 0; i < RC.size(); ++i) {
    std::vector<Con> ng = ref::negate(RC[i]);
    for (size_t k = 0; k < ng.size(); ++k) {
      Sys s = T.s; Con c = ng[k]; c.a.resize(nv); s.push_back(c);
      Vec w;
      if (ref::feasible(nv, s, &w)) {
        Vec wv(w.begin(), w.begin() + T.n);
        // independent re-validation by plain arithmetic
        if (!ref::sat(T.s, w) || ref::sat(RC[i], wv)) { violation("harness.bug.lost_witness", op); return false; }
        violation(key("C03.sound", op, cls), "point " + cut(show(wv), 300) + " of the exact result violates result constraint " + cut(show(RC[i]), 300) + "; " + cut(ctx));
        return false;
      }
    }
  }
  return true;
}
static std::vector<Vec> template_dirs(Kind k, int n) {
  std::vector<Vec> dirs;
  for (int i = 0; i < n; ++i) for (int s = -1; s <= 1; s += 2) { Vec a(n); a[i] = s; dirs.push_back(a); }
  for (int i = 0; i < n; ++i) for (int j = 0; j < n; ++j) if (i != j) { Vec a(n); a[i] = 1; a[j] = -1; dirs.push_back(a); }
  if (k == K_OCT) for (int i = 0; i < n; ++i) for (int j = i + 1; j < n; ++j) for (int s = -1; s <= 1; s += 2) { Vec a(n); a[i] = s; a[j] = s; dirs.push_back(a); }
  return dirs;
}
// R (constraints RC over n variables) is the smallest element of the domain containing the union of the pieces
static bool check_best(const char* mon, const std::string& op, const std::string& cls, const std::vector<ESys>& pieces, int n, const Sys& RC, const std::string& ctx) {
  checked(); hx::count("best_checks");
  std::vector<const ESys*> ne;
  for (size_t i = 0; i < pieces.size(); ++i) if (esys_feasible(pieces[i])) ne.push_back(&pieces[i]);
  bool rne = ref::feasible(n, RC);
  if (ne.empty()) { if (rne) { violation(key(mon, op, cls), "the exact result is empty but the returned element is not; " + cut(ctx)); return false; } return true; }
  if (!rne) { violation(key(mon, op, cls), "returned element empty, exact result is not; " + cut(ctx)); return false; }
  std::vector<Vec> dirs = template_dirs(g.kind, n);
  for (size_t di = 0; di < dirs.size(); ++di) {
    bool tb = true; Q ts; bool first = true;
    for (size_t i = 0; i < ne.size() && tb; ++i) {
      int nv = ne[i]->n + ne[i]->aux; Vec dd = dirs[di]; dd.resize(nv);
      ref::SupResult s = ref::supremum(nv, ne[i]->s, dd);
      if (!s.bounded) tb = false; else if (first || s.sup > ts) { ts = s.sup; first = false; }
    }
    ref::SupResult sr = ref::supremum(n, RC, dirs[di]);
    if (tb != sr.bounded || (tb && ts != sr.sup)) {
      violation(key(mon, op, cls), "direction " + show(dirs[di]) + ": sup over the exact result " + (tb ? qs(ts) : std::string("+inf")) + ", over the returned element " + (sr.bounded ? qs(sr.sup) : std::string("+inf")) + "; " + cut(ctx));
      return false;
    }
  }
  return true;
}
enum Mode { SOUND_ONLY = 0, EXACT = 1, BEST = 2 };
// Soundness for every T; exactness / bestness only over unbounded rationals.
static bool verify(const std::string& op, const std::string& cls03, const std::string& cls04, Mode mode, const std::vector<ESys>& pieces, int n, const Sys& RC, const std::string& ctx) {
  for (size_t i = 0; i < pieces.size(); ++i) if (!check_sound(op, cls03, pieces[i], RC, ctx)) return false;
  if (!g.ti.exact || mode == SOUND_ONLY) return true;
  if (mode == EXACT && pieces.size() == 1 && pieces[0].aux == 0) {
    checked(); hx::count("exact_checks");
    Vec wit; std::string why;
    if (!ref::esys_in_cons(ref::esys_of(RC, n), pieces[0].s, &wit, &why)) { violation(key("C04.exact", op, cls04), "point " + show(wit) + " of the returned element is outside the exact result; " + cut(ctx)); return false; }
    return true;
  }
  return check_best(mode == EXACT ? "C04.exact" : "C04.best", op, cls04, pieces, n, RC, ctx);
}

// integer points of S in a window; false if unbounded / too many
static bool int_points(int n, const Sys& S, std::vector<Vec>& pts, long cap = 3000) {
  pts.clear();
  if (!ref::feasible(n, S)) return true;
  std::vector<mpz_class> lo(n), hi(n); mpz_class vol = 1;
  for (int i = 0; i < n; ++i) {
    Vec a(n); a[i] = 1; ref::SupResult u = ref::supremum(n, S, a); a[i] = -1; ref::SupResult l = ref::supremum(n, S, a);
    if (!u.bounded || !l.bounded) return false;
    mpz_fdiv_q(hi[i].get_mpz_t(), u.sup.get_num_mpz_t(), u.sup.get_den_mpz_t());
    Q lv = -l.sup; mpz_cdiv_q(lo[i].get_mpz_t(), lv.get_num_mpz_t(), lv.get_den_mpz_t());
    if (hi[i] < lo[i]) return true;
    vol *= (hi[i] - lo[i] + 1);
    if (vol > cap) return false;
  }
  Vec x(n); std::vector<mpz_class> cur = lo;
  if (n == 0) { pts.push_back(x); return true; }
  for (;;) {
    for (int i = 0; i < n; ++i) x[i] = cur[i];
    if (ref::sat(S, x)) pts.push_back(x);
    int i = 0; while (i < n) { if (cur[i] < hi[i]) { ++cur[i]; break; } cur[i] = lo[i]; ++i; }
    if (i == n) break;
  }
  return true;
}

// run a PPL call under the logical-time watchdog; unexpected exceptions are violations
template <typename F> static bool guarded(const std::string& op, F f) {
  try { Weight_Guard wg(200000000ULL); f(); note_weight("step", wg.used()); return true; }
  catch (const Logical_Timeout&) { violation(key("C03.hang", op), "logical-time budget (weight 2e8) exceeded"); }
  catch (const std::exception& e) { violation(key("C03.exception", op, typeid(e).name()), e.what()); }
  return false;
}

// ---------- one step's context ----------
struct StepCtx {
  std::vector<SP>& pool; std::vector<std::string>& lastop;
  int n, ai, bi; Sys SA, SB; std::string stw, clsA, clsB, pre;
  StepCtx(std::vector<SP>& p, std::vector<std::string>& l) : pool(p), lastop(l), n(0), ai(0), bi(0) {}
  Shape& A() { return *pool[ai]; } Shape& B() { return *pool[bi]; }
};
static void qvec(const Linear_Expression& e, int n, const Coefficient& d, std::vector<Q>& coefs, Q& inh) {
  Vec a; Q b; ref::conv(e, n, a, b); Q dq = ref::toQ(d);
  for (int i = 0; i < n; ++i) if (a[i] != 0) coefs.push_back(a[i] / dq);
  if (abs(b / dq) > inh) inh = abs(b / dq);
}
// is x_v' = e/d a relation the domain expresses exactly?
static bool expressible(Kind k, int n, int v, const Vec& ea, const Q& d) {
  int cnt = 0, w = -1; for (int i = 0; i < n; ++i) if (ea[i] != 0) { ++cnt; w = i; }
  (void) v;
  if (cnt == 0) return true;
  if (cnt > 1) return false;
  if (ea[w] == d) return true;
  if (ea[w] == -d) return k == K_OCT;
  return false;
}
// an expression biased towards the expressible forms
static Linear_Expression affine_expr(int n, int v, int d) {
  int k = rnd(0, 99);
  if (k < 40) return rexpr(n);
  Linear_Expression e; e += rand_inhomo();
  if (k < 50) return e;
  int w = (k < 70) ? v : rnd(0, n - 1);
  int s = (coin(30)) ? -1 : 1;
  e += (s * d) * Variable(w);
  return e;
}
static const Relation_Symbol REL3[3] = { LESS_OR_EQUAL, EQUAL, GREATER_OR_EQUAL };
static const int REL3I[3] = { 1, 2, 3 };
static const char* const REL3S[3] = { "<=", "==", ">=" };

// Applies one random mutator to pool[ai] and checks it.  Returns false if the case must stop.
static bool mutate(StepCtx& c) {
  const int n = c.n; Shape& A = c.A(); Shape& B = c.B();
  const Sys& SA = c.SA; const Sys& SB = c.SB;
  std::string op; std::ostringstream t; std::vector<ESys> pieces; Mode mode = SOUND_ONLY; std::string cls04;
  std::vector<const Sys*> margs; margs.push_back(&SA); std::vector<Q> mcoefs; Q minh = 0; bool mcoef_given = false;
  bool usesB = false; bool ok = true;
  std::function<void()> call; std::function<bool(const Sys&)> extra;   // extra oracle after the generic one
  std::shared_ptr<int> bres(new int(-1));
  int k = rnd(0, 99);
  if (n == 0 && k >= 14 && k < 62) k = rnd(0, 13);
  if (k < 8) { // add_constraint(s), add_recycled_constraints: representable constraints, exact
    int which = rnd(0, 2); int cnt = which == 0 ? 1 : rnd(0, 3);
    std::vector<Constraint> cv; for (int i = 0; i < cnt; ++i) cv.push_back(rep_con(n, g.kind));
    Constraint_System cs; for (size_t i = 0; i < cv.size(); ++i) cs.insert(cv[i]);
    const char* nm[3] = { "add_constraint", "add_constraints", "add_recycled_constraints" }; op = nm[which];
    t << "." << op << "(" << str_cons(cv) << ")";
    call = [=, &A]() { if (which == 0) A.add_constraint(cv[0]); else if (which == 1) A.add_constraints(cs); else { Constraint_System tmp(cs); A.add_recycled_constraints(tmp); } };
    Sys T = SA; for (size_t i = 0; i < cv.size(); ++i) T.push_back(ref::conv(cv[i], n));
    pieces.push_back(ref::esys_of(T, n)); mode = EXACT;
    for (size_t i = 0; i < cv.size(); ++i) qvec(Linear_Expression(cv[i].expression()), n, Coefficient(1), mcoefs, minh);
    mcoefs.clear(); mcoefs.push_back(Q(1)); mcoef_given = true;
  }
  else if (k < 14) { // refine_with_constraint(s): arbitrary constraints, strict ones included
    int which = rnd(0, 1); int cnt = which == 0 ? 1 : rnd(0, 3);
    std::vector<Constraint> cv; bool allrep = true;
    for (int i = 0; i < cnt; ++i) { if (coin(45)) cv.push_back(rep_con(n, g.kind)); else { cv.push_back(any_con(n, true)); allrep = false; } }
    Constraint_System cs; for (size_t i = 0; i < cv.size(); ++i) cs.insert(cv[i]);
    op = which == 0 ? "refine_with_constraint" : "refine_with_constraints";
    t << "." << op << "(" << str_cons(cv) << ")";
    call = [=, &A]() { if (which == 0) A.refine_with_constraint(cv[0]); else A.refine_with_constraints(cs); };
    Sys T = SA; for (size_t i = 0; i < cv.size(); ++i) T.push_back(ref::conv(cv[i], n));
    pieces.push_back(ref::esys_of(T, n)); mode = allrep ? EXACT : SOUND_ONLY; cls04 = "representable";
    for (size_t i = 0; i < cv.size(); ++i) { std::vector<Q> tmp; qvec(Linear_Expression(cv[i].expression()), n, Coefficient(1), tmp, minh); }
    mcoefs.push_back(Q(1)); mcoef_given = true;
  }
  else if (k < 19) { // congruences: add_ takes representable equalities, refine_ anything
    int which = rnd(0, 4); int cnt = (which == 0 || which == 3) ? 1 : rnd(0, 2); bool refine = which >= 3;
    std::vector<Congruence> gv; bool allrep = true;
    for (int i = 0; i < cnt; ++i) {
      if (!refine || coin(50)) { Constraint rc = rep_con(n, g.kind, 100); Linear_Expression e(rc.expression()); gv.push_back((e %= 0) / 0); }
      else { gv.push_back(rand_cg(n, 3)); allrep = false; }
    }
    Congruence_System cgs; for (size_t i = 0; i < gv.size(); ++i) cgs.insert(gv[i]);
    const char* nm[5] = { "add_congruence", "add_congruences", "add_recycled_congruences", "refine_with_congruence", "refine_with_congruences" }; op = nm[which];
    t << "." << op << "("; for (size_t i = 0; i < gv.size(); ++i) t << (i ? ", " : "") << str(gv[i]); t << ")";
    call = [=, &A]() { switch (which) { case 0: A.add_congruence(gv[0]); break; case 1: A.add_congruences(cgs); break; case 2: { Congruence_System tmp(cgs); A.add_recycled_congruences(tmp); break; } case 3: A.refine_with_congruence(gv[0]); break; default: A.refine_with_congruences(cgs); } };
    Sys T = SA;
    for (size_t i = 0; i < gv.size(); ++i) {
      Vec a(n); for (int d = 0; d < n && d < (int) gv[i].space_dimension(); ++d) a[d] = ref::toQ(gv[i].coefficient(Variable(d)));
      Q b = ref::toQ(gv[i].inhomogeneous_term());
      if (gv[i].is_equality()) T.push_back(Con(a, Q(-b), ref::EQ));
      else if (gv[i].is_inconsistent()) T.push_back(Con(Vec(n), Q(-1), ref::LE));
      // other proper congruences are documented to be ignored
      if (abs(b) > minh) minh = abs(b);
    }
    pieces.push_back(ref::esys_of(T, n)); mode = allrep ? EXACT : SOUND_ONLY; cls04 = "representable";
    mcoefs.push_back(Q(1)); mcoef_given = true;
  }
  else if (k < 28) { // affine image / preimage
    bool pre = coin(); int v = rnd(0, n - 1); int d = rand_den(); Linear_Expression e = affine_expr(n, v, d);
    op = pre ? "affine_preimage" : "affine_image"; t << "." << op << "(" << str(Variable(v)) << ", " << str(e) << ", " << d << ")";
    call = [=, &A]() { if (pre) A.affine_preimage(Variable(v), e, Coefficient(d)); else A.affine_image(Variable(v), e, Coefficient(d)); };
    Vec ea; Q eb; ref::conv(e, n, ea, eb);
    pieces.push_back(ref::def_gen_affine(SA, n, v, 2, ea, eb, Q(d), pre));
    if (expressible(g.kind, n, v, ea, Q(d))) { mode = EXACT; cls04 = (ea[v] != 0) ? "invertible" : "non-invertible"; }
    qvec(e, n, Coefficient(d), mcoefs, minh); mcoef_given = true;
  }
  else if (k < 36) { // generalized affine image / preimage, variable form
    bool pre = coin(); int v = rnd(0, n - 1); int d = rand_den(); Linear_Expression e = affine_expr(n, v, d); int ri = rnd(0, 2);
    op = pre ? "generalized_affine_preimage" : "generalized_affine_image"; t << "." << op << "(" << str(Variable(v)) << ", " << REL3S[ri] << ", " << str(e) << ", " << d << ")";
    call = [=, &A]() { if (pre) A.generalized_affine_preimage(Variable(v), REL3[ri], e, Coefficient(d)); else A.generalized_affine_image(Variable(v), REL3[ri], e, Coefficient(d)); };
    Vec ea; Q eb; ref::conv(e, n, ea, eb);
    pieces.push_back(ref::def_gen_affine(SA, n, v, REL3I[ri], ea, eb, Q(d), pre));
    qvec(e, n, Coefficient(d), mcoefs, minh); mcoef_given = true;
  }
  else if (k < 42) { // generalized affine image / preimage, lhs/rhs form
    bool pre = coin(); Linear_Expression l = coin(60) ? Linear_Expression(small_coeff(2) * Variable(rnd(0, n - 1)) + small_coeff(3)) : rexpr(n, 55); Linear_Expression r = rexpr(n); int ri = rnd(0, 2);
    op = pre ? "generalized_affine_preimage_lr" : "generalized_affine_image_lr"; t << "." << op << "(" << str(l) << ", " << REL3S[ri] << ", " << str(r) << ")";
    call = [=, &A]() { if (pre) A.generalized_affine_preimage(l, REL3[ri], r); else A.generalized_affine_image(l, REL3[ri], r); };
    Vec la, ra; Q lb, rb; ref::conv(l, n, la, lb); ref::conv(r, n, ra, rb);
    pieces.push_back(ref::def_gen_affine_lr(SA, n, la, lb, REL3I[ri], ra, rb, pre));
    qvec(l, n, Coefficient(1), mcoefs, minh); qvec(r, n, Coefficient(1), mcoefs, minh); mcoef_given = true;
  }
  else if (k < 50) { // bounded affine image / preimage
    bool pre = coin(); int v = rnd(0, n - 1); int d = rand_den(); Linear_Expression lb = affine_expr(n, v, d), ub = affine_expr(n, v, d);
    op = pre ? "bounded_affine_preimage" : "bounded_affine_image"; t << "." << op << "(" << str(Variable(v)) << ", " << str(lb) << ", " << str(ub) << ", " << d << ")";
    call = [=, &A]() { if (pre) A.bounded_affine_preimage(Variable(v), lb, ub, Coefficient(d)); else A.bounded_affine_image(Variable(v), lb, ub, Coefficient(d)); };
    Vec la, ua; Q lbb, ubb; ref::conv(lb, n, la, lbb); ref::conv(ub, n, ua, ubb);
    pieces.push_back(ref::def_bounded_affine(SA, n, v, la, lbb, ua, ubb, Q(d), pre));
    qvec(lb, n, Coefficient(d), mcoefs, minh); qvec(ub, n, Coefficient(d), mcoefs, minh); mcoef_given = true;
  }
  else if (k < 54) { // unconstrain
    bool set = coin(); std::vector<bool> vars(n, false); Variables_Set vs;
    if (set) { for (int i = 0; i < n; ++i) if (coin(40)) { vars[i] = true; vs.insert(Variable(i)); } } else { int v = rnd(0, n - 1); vars[v] = true; vs.insert(Variable(v)); }
    op = set ? "unconstrain_set" : "unconstrain"; t << "." << op << "(" << str(vs) << ")";
    call = [=, &A]() { if (set) A.unconstrain(vs); else A.unconstrain(Variable(*vs.begin())); };
    pieces.push_back(ref::def_unconstrain(SA, n, vars));
  }
  else if (k < 62) { // drop_some_non_integer_points / topological closure
    if (coin(25)) { op = "topological_closure_assign"; t << "." << op << "()"; call = [&A]() { A.topological_closure_assign(); }; pieces.push_back(ref::esys_of(SA, n)); mode = EXACT; }
    else {
      Variables_Set vs; bool all = coin(); if (!all) for (int i = 0; i < n; ++i) if (coin()) vs.insert(Variable(i));
      Complexity_Class cc = (Complexity_Class) rnd(0, 2);
      op = "drop_some_non_integer_points"; t << "." << op << "(" << (all ? std::string("all") : str(vs)) << ", " << (int) cc << ")";
      call = [=, &A]() { if (all) A.drop_some_non_integer_points(cc); else A.drop_some_non_integer_points(vs, cc); };
      extra = [=, &SA](const Sys& RC) -> bool {
        std::vector<Vec> pts;
        if (!int_points(n, SA, pts)) { hx::inconclusive("int_window"); return true; }
        checked(); hx::count("int_points_checked", pts.size());
        for (size_t i = 0; i < pts.size(); ++i) if (!ref::sat(RC, pts[i])) { violation(key("C03.sound", "drop_some_non_integer_points"), "integer point " + show(pts[i]) + " of the argument " + cut(show(SA)) + " is missing from the result " + cut(show(RC))); return false; }
        return true;
      };
    }
  }
  else if (k < 68) { op = "intersection_assign"; usesB = true; t << "." << op << "(#" << c.bi << ")";
    call = [&A, &B]() { A.intersection_assign(B); };
    Sys T = SA; T.insert(T.end(), SB.begin(), SB.end()); pieces.push_back(ref::esys_of(T, n)); mode = EXACT; }
  else if (k < 75) { op = "upper_bound_assign"; usesB = true; t << "." << op << "(#" << c.bi << ")";
    call = [&A, &B]() { A.upper_bound_assign(B); };
    pieces.push_back(ref::esys_of(SA, n)); pieces.push_back(ref::esys_of(SB, n)); mode = BEST; }
  else if (k < 82) { // upper_bound_assign_if_exact (+ the integer variant on integral T)
    bool integer = g.ti.integer && coin(35);
    op = integer ? "integer_upper_bound_assign_if_exact" : "upper_bound_assign_if_exact"; usesB = true; t << "." << op << "(#" << c.bi << ")";
    call = [=, &A, &B]() { *bres = integer ? A.integer_upper_bound_assign_if_exact(B) : (A.upper_bound_assign_if_exact(B) ? 1 : 0); };
    extra = [=, &SA, &SB](const Sys& RC) -> bool {
      std::string ctx = "returned " + std::to_string(*bres) + "; A=" + cut(show(SA), 400) + " B=" + cut(show(SB), 400) + " R=" + cut(show(RC), 400);
      std::string cls = mag_class(std::vector<const Sys*>{ &SA, &SB }, std::vector<Q>(), Q(0));
      if (integer) { // semantics on integer points: every integer point of A (and of B when true) stays
        std::vector<Vec> pa, pb;
        if (!int_points(n, SA, pa) || !int_points(n, SB, pb)) { hx::inconclusive("int_window"); return true; }
        checked();
        if (*bres == 1) pa.insert(pa.end(), pb.begin(), pb.end());
        for (size_t i = 0; i < pa.size(); ++i) if (!ref::sat(RC, pa[i])) { violation(key("C03.sound", op, cls), "integer point " + show(pa[i]) + " lost; " + ctx); return false; }
        return true;
      }
      if (!check_sound(op, cls, ref::esys_of(SA, n), RC, ctx)) return false;
      if (*bres == 1 && !check_sound(op, cls, ref::esys_of(SB, n), RC, ctx)) return false;
      if (!g.ti.exact) return true;
      // Boolean: true exactly when A u B is an element of the domain, i.e. its best abstraction H is covered by A u B
      std::vector<ESys> two; two.push_back(ref::esys_of(SA, n)); two.push_back(ref::esys_of(SB, n));
      bool ea = !ref::feasible(n, SA), eb = !ref::feasible(n, SB);
      int covered;
      if (ea || eb) covered = 1;
      else {
        Sys H; std::vector<Vec> dirs = template_dirs(g.kind, n);
        for (size_t i = 0; i < dirs.size(); ++i) { ref::SupResult a = ref::supremum(n, SA, dirs[i]), b = ref::supremum(n, SB, dirs[i]); if (a.bounded && b.bounded) H.push_back(Con(dirs[i], a.sup > b.sup ? a.sup : b.sup, ref::LE)); }
        std::vector<Sys> U(1, H), V; V.push_back(SA); V.push_back(SB);
        covered = ref::union_included(n, U, V, 0);
      }
      checked();
      if (covered < 0) { hx::inconclusive("union_cap"); return true; }
      if ((*bres == 1) != (covered == 1)) { violation(key("C04.exact", op, *bres == 1 ? "true-but-union-not-in-domain" : "false-but-union-in-domain"), ctx); return false; }
      if (*bres == 1) return check_best("C04.best", op, "", two, n, RC, ctx);
      if (!sys_equal(n, RC, SA)) { violation(key("C04.exact", op, "false-but-changed"), ctx); return false; }
      return true;
    };
  }
  else if (k < 89) { op = "difference_assign"; usesB = true; t << "." << op << "(#" << c.bi << ")";
    call = [&A, &B]() { A.difference_assign(B); };
    if (!ref::feasible(n, SB)) pieces.push_back(ref::esys_of(SA, n));
    else { std::vector<Sys> ps = ref::difference_pieces(n, SA, SB); for (size_t i = 0; i < ps.size(); ++i) pieces.push_back(ref::esys_of(ps[i], n)); if (ps.empty()) pieces.push_back(esys_empty(n)); }
    mode = BEST; }
  else if (k < 95) { op = "time_elapse_assign"; usesB = true; t << "." << op << "(#" << c.bi << ")";
    call = [&A, &B]() { A.time_elapse_assign(B); };
    if (!ref::feasible(n, SB) || !ref::feasible(n, SA)) pieces.push_back(esys_empty(n));
    else { // x = p + z, p in A, z = lambda q with q in B, lambda >= 0
      ESys T; T.n = n; T.aux = 2 * n + 1; int nv = 3 * n + 1, lam = 3 * n;
      for (size_t i = 0; i < SA.size(); ++i) T.s.push_back(ref::shift(SA[i], nv, n));
      for (size_t i = 0; i < SB.size(); ++i) { Con cc = ref::shift(SB[i], nv, 2 * n); cc.a[lam] = -SB[i].b; cc.b = 0; T.s.push_back(cc); }
      { Vec a(nv); a[lam] = -1; T.s.push_back(Con(a, Q(0), ref::LE)); }
      for (int d = 0; d < n; ++d) { Vec a(nv); a[d] = 1; a[n + d] = -1; a[2 * n + d] = -1; T.s.push_back(Con(a, Q(0), ref::EQ)); }
      pieces.push_back(T);
    } }
  else { op = "simplify_using_context_assign"; usesB = true; t << "." << op << "(#" << c.bi << ")";
    call = [=, &A, &B]() { *bres = A.simplify_using_context_assign(B) ? 1 : 0; };
    extra = [=, &SA, &SB](const Sys& RC) -> bool {
      // meet-preserving enlargement: when the meet is non-empty the result must keep every point of A
      Sys meet = SA; meet.insert(meet.end(), SB.begin(), SB.end());
      if (!ref::feasible(n, meet)) return true;
      std::string cls = mag_class(std::vector<const Sys*>{ &SA, &SB }, std::vector<Q>(), Q(0));
      return check_sound(op, cls, ref::esys_of(SA, n), RC, "A=" + cut(show(SA), 400) + " B=" + cut(show(SB), 400) + " R=" + cut(show(RC), 400));
    };
  }
  if (usesB) margs.push_back(&SB);
  tr(c.pre + t.str()); hx::count("op." + op);
  if (nontrivial(c.clsA)) hx::distinct("op|" + g.inst + "|" + op + "|" + c.stw + "|" + c.clsA + (usesB ? "|" + c.clsB + (c.ai == c.bi ? "|alias" : "") : "") + (cls04.empty() ? "" : "|" + cls04));
  c.lastop[c.ai] = op;
  if (!guarded(op, call)) return false;
  Sys RC; std::string w;
  if (!status_word(A, w, op) || !observe(A, RC, op)) return false;
  if ((int) A.dim() != n) { violation(key("C03.sound", op, "dimension"), "space dimension changed"); return false; }
  std::string cls03 = mag_class(margs, mcoef_given ? mcoefs : std::vector<Q>(), minh);
  std::string ctx = "A=" + cut(show(SA), 500) + (usesB ? " B=" + cut(show(SB), 500) : "") + " R=" + cut(show(RC), 500);
  if (!pieces.empty()) ok = verify(op, cls03, cls04, mode, pieces, n, RC, ctx);
  if (ok && extra) ok = extra(RC);
  return ok;
}
