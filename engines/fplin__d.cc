#include "fplin_impl.hh"
namespace fpl { void case_d() { Lin<double> e("double"); e.run(); } }
