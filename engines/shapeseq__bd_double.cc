// shapeseq: instantiation of the shape adapter for BD_Shape<double> (see shapeseq.hh).
#include "shapeseq.hh"
SHAPESEQ_REGISTER(bd_double, Parma_Polyhedra_Library::BD_Shape<double>)
