// boxseq: instantiation of the box adapter for Parma_Polyhedra_Library::Int8_Box (see boxseq.hh).
#include "boxseq.hh"
BOXSEQ_REGISTER(int8, 3, Parma_Polyhedra_Library::Int8_Box)
