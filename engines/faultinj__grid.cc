// faultinj: scenarios and rejected calls on Grid.
#include "faultinj.hh"
using namespace fi;
using pplx::str;

namespace {
int rdim() { return rnd(1, hx::opt().thorough ? 4 : 3); }
Congruence rcg(int n) {
  Linear_Expression e = rexpr(n, 40);
  int m = rnd(0, 9);
  if (m < 2) return (e %= 0) / 0;                        // equality
  if (m < 8) return (e %= rnd(0, 3)) / rnd(1, 4);
  Coefficient big = bigc(rnd(0, 3));
  return (e %= rnd(0, 3)) / big;
}
Grid_Generator rgg(int n, bool must_point) {
  Linear_Expression e; for (int j = 0; j < n; ++j) if (!coin(30)) e += rcoef(4) * Variable(j);
  e.set_space_dimension(n);
  int k = must_point ? 0 : rnd(0, 9);
  if (k < 4) { Coefficient d = rcoef(3); if (d <= 0) d = 1; return grid_point(e, d); }
  if (e.all_homogeneous_terms_are_zero()) e += Variable(rnd(0, n - 1));
  if (k < 8) { Coefficient d = rcoef(3); if (d <= 0) d = 1; return parameter(e, d); }
  return grid_line(e);
}
Grid_Generator_System rggs(int n, int m) { Grid_Generator_System gs; gs.insert(rgg(n, true)); for (int i = 1; i < m; ++i) gs.insert(rgg(n, false)); return gs; }
Grid rgrid(int n, bool may_be_empty = true) {
  if (n == 0) return (may_be_empty && coin(30)) ? Grid(0, EMPTY) : Grid(0);
  int st = rnd(0, 9);
  if (!may_be_empty) { Grid g(n, EMPTY); g.add_grid_generators(rggs(n, rnd(1, 3))); if (coin()) (void) g.minimized_congruences(); return g; }
  if (st == 0) { Grid g(n, EMPTY); return g; }
  if (st < 4) { Grid g(n, EMPTY); g.add_grid_generators(rggs(n, rnd(1, 4))); if (st == 1) (void) g.minimized_congruences(); return g; }
  Grid g(n);
  for (int i = rnd(1, 4); i > 0; --i) g.add_congruence(rcg(n));
  if (st == 4) (void) g.minimized_grid_generators();
  else if (st == 5) (void) g.is_empty();
  else if (st == 6) { (void) g.minimized_grid_generators(); g.add_congruence(rcg(n)); }
  return g;
}
Grid fresh(int n) { Grid g(n); if (n > 0) g.add_congruence((Variable(0) + Variable(n - 1) %= 1) / 3); return g; }
void use(Grid& g) {
  int n = (int) g.space_dimension();
  (void) g.is_empty();
  if (n > 0) g.add_congruence((Variable(0) %= 0) / 2);
  (void) g.minimized_grid_generators();
  if (n > 0 && !Grid(g).is_empty()) g.add_grid_generator(parameter(Variable(n - 1), 2));
  (void) g.minimized_congruences();
  (void) g.is_discrete();
}
std::string val(const Grid& g) { Grid q(g); std::ostringstream o; o << q.space_dimension() << ":" << str(q.minimized_congruences()); return o.str(); }
#define EQ [](const Grid& a, const Grid& b) { return a.space_dimension() == b.space_dimension() && a == b; }
#define POSTG(name, obj) c.post(name, obj, fresh((int) (obj).space_dimension()), use, EQ)

SCENARIO("Grid.minimize_congruences") { int n = rdim(); Grid g(n); for (int i = rnd(2, 5); i > 0; --i) g.add_congruence(rcg(n));
  c.run([&] { (void) g.minimized_grid_generators(); }); c.result([&] { return val(g); }); POSTG("g", g); }
SCENARIO("Grid.minimize_generators") { int n = rdim(); Grid g(n, EMPTY); g.add_grid_generators(rggs(n, rnd(2, 5)));
  c.run([&] { (void) g.minimized_congruences(); }); c.result([&] { return val(g); }); POSTG("g", g); }
SCENARIO("Grid.add_congruence") { int n = rdim(); Grid g = rgrid(n); Congruence k = rcg(n);
  c.run([&] { g.add_congruence(k); (void) g.is_empty(); }); c.result([&] { return val(g); }); POSTG("g", g); }
SCENARIO("Grid.add_congruences") { int n = rdim(); Grid g = rgrid(n); Congruence_System cgs; for (int i = rnd(1, 4); i > 0; --i) cgs.insert(rcg(n));
  c.run([&] { g.add_congruences(cgs); (void) g.minimized_congruences(); }); c.result([&] { return val(g); }); POSTG("g", g);
  c.post("cgs", cgs, Congruence_System((Variable(0) %= 1) / 2), [](Congruence_System& s) { s.insert((Variable(1) %= 0) / 3); }); }
SCENARIO("Grid.add_recycled_congruences") { int n = rdim(); Grid g = rgrid(n); Congruence_System cgs; for (int i = rnd(1, 4); i > 0; --i) cgs.insert(rcg(n)); cgs.insert((0 * Variable(n - 1) %= 0) / 1);
  c.run([&] { g.add_recycled_congruences(cgs); (void) g.is_empty(); }); c.result([&] { return val(g); }); POSTG("g", g);
  c.post("cgs", cgs, Congruence_System((Variable(0) %= 1) / 2), [](Congruence_System&) {}); }
SCENARIO("Grid.add_constraints") { int n = rdim(); Grid g = rgrid(n); Constraint_System cs; for (int i = rnd(1, 3); i > 0; --i) cs.insert(rexpr(n) == 0);
  c.run([&] { g.add_constraints(cs); (void) g.minimized_congruences(); }); c.result([&] { return val(g); }); POSTG("g", g); }
SCENARIO("Grid.refine_with") { int n = rdim(); Grid g = rgrid(n); Constraint_System cs; for (int i = rnd(1, 3); i > 0; --i) cs.insert(pplx::rand_con(n, true)); Congruence_System cgs; cgs.insert(rcg(n));
  c.run([&] { g.refine_with_constraints(cs); g.refine_with_congruences(cgs); (void) g.is_empty(); }); c.result([&] { return val(g); }); POSTG("g", g); }
SCENARIO("Grid.add_grid_generator") { int n = rdim(); Grid g = rgrid(n); bool e = Grid(g).is_empty(); Grid_Generator gg = rgg(n, e);
  c.run([&] { g.add_grid_generator(gg); (void) g.minimized_congruences(); }); c.result([&] { return val(g); }); POSTG("g", g); }
SCENARIO("Grid.add_grid_generators") { int n = rdim(); Grid g = rgrid(n); Grid_Generator_System gs = rggs(n, rnd(1, 4));
  c.run([&] { g.add_grid_generators(gs); (void) g.minimized_grid_generators(); }); c.result([&] { return val(g); }); POSTG("g", g);
  c.post("gs", gs, Grid_Generator_System(grid_point()), [](Grid_Generator_System& s) { s.insert(grid_line(Variable(0))); }); }
SCENARIO("Grid.add_recycled_grid_generators") { int n = rdim(); Grid g = rgrid(n); Grid_Generator_System gs = rggs(n, rnd(1, 4));
  c.run([&] { g.add_recycled_grid_generators(gs); (void) g.minimized_congruences(); }); c.result([&] { return val(g); }); POSTG("g", g);
  c.post("gs", gs, Grid_Generator_System(grid_point()), [](Grid_Generator_System&) {}); }

enum Bin { MEET, JOIN, JOIN_EXACT, DIFF, TELAPSE, CONCAT, SIMPLIFY, QUERIES };
template <int OP> void s_binary(Ctx& c) {
  int n = rdim(); Grid a = rgrid(n), b = rgrid(OP == CONCAT ? rnd(0, 2) : n);
  bool b1 = false, b2 = false, b3 = false;
  c.run([&] {
    switch (OP) {
    case MEET: a.intersection_assign(b); break;
    case JOIN: a.upper_bound_assign(b); break;
    case JOIN_EXACT: b1 = a.upper_bound_assign_if_exact(b); break;
    case DIFF: a.difference_assign(b); break;
    case TELAPSE: a.time_elapse_assign(b); break;
    case CONCAT: a.concatenate_assign(b); break;
    case SIMPLIFY: b1 = a.simplify_using_context_assign(b); break;
    case QUERIES: b1 = a.contains(b); b2 = a.is_disjoint_from(b); b3 = a.strictly_contains(b); break;
    }
    (void) a.minimized_congruences();
  });
  c.result([&] { return val(a) + (b1 ? "T" : "F") + (b2 ? "T" : "F") + (b3 ? "T" : "F"); });
  POSTG("a", a); POSTG("b", b);
}
static RegS b1("Grid.intersection_assign", s_binary<MEET>), b2("Grid.upper_bound_assign", s_binary<JOIN>), b3("Grid.upper_bound_assign_if_exact", s_binary<JOIN_EXACT>),
  b4("Grid.difference_assign", s_binary<DIFF>), b5("Grid.time_elapse_assign", s_binary<TELAPSE>), b6("Grid.concatenate_assign", s_binary<CONCAT>),
  b7("Grid.simplify_using_context_assign", s_binary<SIMPLIFY>), b8("Grid.contains_disjoint", s_binary<QUERIES>);

enum Aff { IMG, PRE, GIMG, GIMG2, GPRE, GPRE2, BIMG, BPRE };
template <int OP> void s_affine(Ctx& c) {
  int n = rdim(); Grid g = rgrid(n); Variable v(rnd(0, n - 1));
  Linear_Expression e = rexpr(n), f = rexpr(n);
  Coefficient d = rcoef(3); if (d == 0) d = -2;
  Coefficient mod = coin(30) ? Coefficient(0) : Coefficient(rnd(1, 4));
  Relation_Symbol rel = pplx::REL5[rnd(0, 4)];
  if (rel != EQUAL) mod = 0;     // documented precondition of the generalized images on grids
  c.run([&] {
    switch (OP) {
    case IMG: g.affine_image(v, e, d); break;
    case PRE: g.affine_preimage(v, e, d); break;
    case GIMG: g.generalized_affine_image(v, rel, e, d, mod); break;
    case GIMG2: g.generalized_affine_image(e, rel, f, mod); break;
    case GPRE: g.generalized_affine_preimage(v, rel, e, d, mod); break;
    case GPRE2: g.generalized_affine_preimage(e, rel, f, mod); break;
    case BIMG: g.bounded_affine_image(v, e, f, d); break;
    case BPRE: g.bounded_affine_preimage(v, e, f, d); break;
    }
    (void) g.minimized_grid_generators();
  });
  c.result([&] { return val(g); });
  POSTG("g", g);
}
static RegS a1("Grid.affine_image", s_affine<IMG>), a2("Grid.affine_preimage", s_affine<PRE>), a3("Grid.generalized_affine_image", s_affine<GIMG>),
  a4("Grid.generalized_affine_image_lhs_rhs", s_affine<GIMG2>), a5("Grid.generalized_affine_preimage", s_affine<GPRE>), a6("Grid.generalized_affine_preimage_lhs_rhs", s_affine<GPRE2>),
  a7("Grid.bounded_affine_image", s_affine<BIMG>), a8("Grid.bounded_affine_preimage", s_affine<BPRE>);

enum Wid { CGW, GENW, WID, LIM_CG, LIM_GEN, LIM };
template <int OP> void s_widen(Ctx& c) {
  int n = rdim();
  Grid small = rgrid(n); if (Grid(small).is_empty()) { small = Grid(n, EMPTY); small.add_grid_generator(grid_point()); }
  Grid large(small); large.add_grid_generators(rggs(n, rnd(1, 3)));
  if (coin()) (void) large.minimized_congruences();
  if (coin()) (void) small.minimized_grid_generators();
  Congruence_System cgs; for (int i = rnd(1, 3); i > 0; --i) cgs.insert(rcg(n));
  unsigned tokens = rnd(0, 1); bool wt = coin(30);
  c.run([&] {
    unsigned* tp = wt ? &tokens : 0;
    switch (OP) {
    case CGW: large.congruence_widening_assign(small, tp); break;
    case GENW: large.generator_widening_assign(small, tp); break;
    case WID: large.widening_assign(small, tp); break;
    case LIM_CG: large.limited_congruence_extrapolation_assign(small, cgs, tp); break;
    case LIM_GEN: large.limited_generator_extrapolation_assign(small, cgs, tp); break;
    case LIM: large.limited_extrapolation_assign(small, cgs, tp); break;
    }
    (void) large.minimized_congruences();
  });
  c.result([&] { return val(large); });
  POSTG("large", large); POSTG("small", small);
}
static RegS w1("Grid.congruence_widening_assign", s_widen<CGW>), w2("Grid.generator_widening_assign", s_widen<GENW>), w3("Grid.widening_assign", s_widen<WID>),
  w4("Grid.limited_congruence_extrapolation_assign", s_widen<LIM_CG>), w5("Grid.limited_generator_extrapolation_assign", s_widen<LIM_GEN>), w6("Grid.limited_extrapolation_assign", s_widen<LIM>);

struct PFunc {
  std::vector<long> m;
  bool has_empty_codomain() const { for (size_t i = 0; i < m.size(); ++i) if (m[i] >= 0) return false; return true; }
  dimension_type max_in_codomain() const { long r = 0; for (size_t i = 0; i < m.size(); ++i) if (m[i] > r) r = m[i]; return (dimension_type) r; }
  bool maps(dimension_type i, dimension_type& j) const { if (i >= m.size() || m[i] < 0) return false; j = (dimension_type) m[i]; return true; }
};
enum Dim { EMBED, PROJECT, REMOVE, REMOVE_HIGHER, EXPAND, FOLD, MAP, UNCONSTRAIN, WRAP, DROP_NONINT, TOPCLOSURE };
template <int OP> void s_dims(Ctx& c) {
  int n = rdim(); Grid g = rgrid(n);
  Variables_Set vs; for (int i = 0; i < n; ++i) if (coin(40)) vs.insert(Variable(i));
  int m = rnd(1, 3); Variable v(rnd(0, n - 1));
  Variables_Set fold_vs; for (int i = 0; i < n; ++i) if (i != (int) v.id() && coin()) fold_vs.insert(Variable(i));
  PFunc pf; pf.m.assign(n, -1);
  { std::vector<int> keep; for (int i = 0; i < n; ++i) if (coin(70)) keep.push_back(i); std::vector<int> img; for (size_t i = 0; i < keep.size(); ++i) img.push_back((int) i); std::shuffle(img.begin(), img.end(), hx::rng()); for (size_t i = 0; i < keep.size(); ++i) pf.m[keep[i]] = img[i]; }
  Constraint_System wcs; if (coin() && !vs.empty()) wcs.insert(Variable(*vs.begin()) >= 0);
  c.run([&] {
    switch (OP) {
    case EMBED: g.add_space_dimensions_and_embed(m); break;
    case PROJECT: g.add_space_dimensions_and_project(m); break;
    case REMOVE: g.remove_space_dimensions(vs); break;
    case REMOVE_HIGHER: g.remove_higher_space_dimensions(rnd(0, n)); break;
    case EXPAND: g.expand_space_dimension(v, m); break;
    case FOLD: g.fold_space_dimensions(fold_vs, v); break;
    case MAP: g.map_space_dimensions(pf); break;
    case UNCONSTRAIN: if (coin()) g.unconstrain(v); else g.unconstrain(vs); break;
    case WRAP: g.wrap_assign(vs, BITS_8, coin() ? UNSIGNED : SIGNED_2_COMPLEMENT, coin() ? OVERFLOW_WRAPS : OVERFLOW_UNDEFINED, &wcs, 4, coin()); break;
    case DROP_NONINT: if (coin()) g.drop_some_non_integer_points(); else g.drop_some_non_integer_points(vs); break;
    case TOPCLOSURE: g.topological_closure_assign(); break;
    }
    (void) g.minimized_congruences();
  });
  c.result([&] { return val(g); });
  POSTG("g", g);
}
static RegS d1("Grid.add_space_dimensions_and_embed", s_dims<EMBED>), d2("Grid.add_space_dimensions_and_project", s_dims<PROJECT>), d3("Grid.remove_space_dimensions", s_dims<REMOVE>),
  d4("Grid.remove_higher_space_dimensions", s_dims<REMOVE_HIGHER>), d5("Grid.expand_space_dimension", s_dims<EXPAND>), d6("Grid.fold_space_dimensions", s_dims<FOLD>),
  d7("Grid.map_space_dimensions", s_dims<MAP>), d8("Grid.unconstrain", s_dims<UNCONSTRAIN>), d9("Grid.wrap_assign", s_dims<WRAP>), d10("Grid.drop_some_non_integer_points", s_dims<DROP_NONINT>),
  d11("Grid.topological_closure_assign", s_dims<TOPCLOSURE>);

enum Cpy { COPY, ASSIGN, SWAP, GETTERS, FROM_POLY, FROM_BOX };
template <int OP> void s_copy(Ctx& c) {
  int n = rdim(); Grid a = rgrid(n), b = rgrid(rnd(0, 3));
  C_Polyhedron ph = rpoly<C_Polyhedron>(n);
  Rational_Box box(n); for (int i = 0; i < n; ++i) if (coin()) box.add_constraint(Variable(i) == rnd(-2, 2));
  c.run([&] {
    switch (OP) {
    case COPY: { Grid t(a); (void) t.minimized_grid_generators(); break; }
    case ASSIGN: b = a; break;
    case SWAP: { Grid t(a); t.m_swap(b); swap(t, b); break; }
    case GETTERS: { Congruence_System cg(a.congruences()); Congruence_System mcg(a.minimized_congruences()); Grid_Generator_System gs(a.grid_generators()); Grid_Generator_System mgs(a.minimized_grid_generators()); Constraint_System cs(a.constraints()); Grid t(cg); if (gs.begin() == gs.end()) break; Grid u(gs); b.m_swap(u); break; }
    case FROM_POLY: { Grid t(ph); b.m_swap(t); break; }
    case FROM_BOX: { Grid t(box); b.m_swap(t); break; }
    }
  });
  c.result([&] { return val(a) + val(b); });
  POSTG("a", a); POSTG("b", b);
}
static RegS c1("Grid.copy_construct", s_copy<COPY>), c2("Grid.assign", s_copy<ASSIGN>), c3("Grid.swap", s_copy<SWAP>), c4("Grid.getters", s_copy<GETTERS>), c5("Grid.from_polyhedron", s_copy<FROM_POLY>), c6("Grid.from_box", s_copy<FROM_BOX>);

enum Io { DUMP, LOAD, PRINT };
template <int OP> void s_io(Ctx& c) {
  int n = rdim(); Grid a = rgrid(n), b(rnd(0, 2));
  std::string text = dump(a), out; bool ok = true;
  c.run([&] {
    switch (OP) {
    case DUMP: { std::ostringstream o; a.ascii_dump(o); out = o.str(); break; }
    case LOAD: { std::istringstream i(text); ok = b.ascii_load(i); break; }
    case PRINT: { std::ostringstream o; using namespace IO_Operators; o << a << a.grid_generators(); out = o.str(); break; }
    }
  });
  c.result([&] { return val(a) + (OP == LOAD ? val(b) : std::string()) + (ok ? "T" : "F") + (OP == PRINT ? std::string() : out); });
  if (OP == LOAD && !c.threw && c.mode <= COUNT && (!ok || !(b == a))) c.fail("ascii_load_failed", "ascii_load of an ascii_dump failed without any injected failure");
  POSTG("a", a); POSTG("b", b);
}
static RegS i1("Grid.ascii_dump", s_io<DUMP>), i2("Grid.ascii_load", s_io<LOAD>), i3("Grid.print", s_io<PRINT>);

enum Qry { MAXMIN, RELATION, PREDICATES, FREQUENCY };
template <int OP> void s_query(Ctx& c) {
  int n = rdim(); Grid g = rgrid(n);
  Linear_Expression e = rexpr(n); Constraint k = pplx::rand_con(n, true); Congruence cg = rcg(n); Grid_Generator gg = rgg(n, false); Generator pg = pplx::rand_gen(n, false, false);
  std::ostringstream r;
  c.run([&] {
    Coefficient a, b, f1, f2; bool mx; Generator w = point();
    switch (OP) {
    case MAXMIN: r << g.maximize(e, a, b, mx, w) << g.minimize(e, a, b, mx) << g.bounds_from_above(e) << g.bounds_from_below(e); break;
    case RELATION: r << g.relation_with(k).implies(Poly_Con_Relation::is_included()) << g.relation_with(gg).implies(Poly_Gen_Relation::subsumes()) << g.relation_with(cg).implies(Poly_Con_Relation::is_disjoint()) << g.relation_with(pg).implies(Poly_Gen_Relation::subsumes()); break;
    case PREDICATES: r << g.is_empty() << g.is_universe() << g.is_bounded() << g.is_topologically_closed() << g.is_discrete() << g.contains_integer_point() << g.constrains(Variable(0)) << g.affine_dimension(); break;
    case FREQUENCY: r << g.frequency(e, a, b, f1, f2); break;
    }
  });
  c.result([&] { return val(g) + r.str(); });
  POSTG("g", g);
}
static RegS q1("Grid.maximize_minimize", s_query<MAXMIN>), q2("Grid.relation_with", s_query<RELATION>), q3("Grid.predicates", s_query<PREDICATES>), q4("Grid.frequency", s_query<FREQUENCY>);

// ---------------------------------------------------------------- rejected calls (Grid_defs.hh)
#define REJG(op, cls, expected, stmt) REJECT("Grid", op, cls) { Variable x(0), y(1), z(2); (void) x; (void) y; (void) z; \
    Grid g = rgrid(2, false), h = rgrid(3, false); Grid g0(g), h0(h); r.call(expected, [&] { stmt; }); r.unchanged("receiver", g, g0); r.unchanged("argument", h, h0); }
REJG("add_congruence", "dim_too_large", "invalid_argument", g.add_congruence((z %= 1) / 2))
REJG("add_congruences", "dim_too_large", "invalid_argument", Congruence_System cgs; cgs.insert((x %= 1) / 2); cgs.insert((z %= 0) / 3); g.add_congruences(cgs))
REJG("add_recycled_congruences", "dim_too_large", "invalid_argument", Congruence_System cgs; cgs.insert((z %= 0) / 3); g.add_recycled_congruences(cgs))
REJG("add_constraint", "dim_too_large", "invalid_argument", g.add_constraint(z == 1))
REJG("add_constraint", "inequality", "invalid_argument", g.add_constraint(x >= 1))
REJG("add_constraint", "strict_inequality", "invalid_argument", g.add_constraint(x + y > 1))
REJG("add_constraints", "inequality", "invalid_argument", Constraint_System cs; cs.insert(x == 1); cs.insert(y <= 3); g.add_constraints(cs))
REJG("add_recycled_constraints", "inequality", "invalid_argument", Constraint_System cs; cs.insert(x == 1); cs.insert(y <= 3); g.add_recycled_constraints(cs))
REJG("refine_with_constraint", "dim_too_large", "invalid_argument", g.refine_with_constraint(z >= 1))
REJG("refine_with_congruence", "dim_too_large", "invalid_argument", g.refine_with_congruence((z %= 1) / 2))
REJG("add_grid_generator", "dim_too_large", "invalid_argument", g.add_grid_generator(grid_point(z)))
REJG("add_grid_generators", "dim_too_large", "invalid_argument", Grid_Generator_System gs; gs.insert(grid_point(x)); gs.insert(parameter(z)); g.add_grid_generators(gs))
REJG("add_recycled_grid_generators", "dim_too_large", "invalid_argument", Grid_Generator_System gs; gs.insert(grid_point(z)); g.add_recycled_grid_generators(gs))
REJG("intersection_assign", "dim_mismatch", "invalid_argument", g.intersection_assign(h))
REJG("upper_bound_assign", "dim_mismatch", "invalid_argument", g.upper_bound_assign(h))
REJG("upper_bound_assign_if_exact", "dim_mismatch", "invalid_argument", (void) g.upper_bound_assign_if_exact(h))
REJG("difference_assign", "dim_mismatch", "invalid_argument", g.difference_assign(h))
REJG("time_elapse_assign", "dim_mismatch", "invalid_argument", g.time_elapse_assign(h))
REJG("simplify_using_context_assign", "dim_mismatch", "invalid_argument", (void) g.simplify_using_context_assign(h))
REJG("contains", "dim_mismatch", "invalid_argument", (void) g.contains(h))
REJG("strictly_contains", "dim_mismatch", "invalid_argument", (void) g.strictly_contains(h))
REJG("is_disjoint_from", "dim_mismatch", "invalid_argument", (void) g.is_disjoint_from(h))
REJG("affine_image", "zero_denominator", "invalid_argument", g.affine_image(x, y + 1, 0))
REJG("affine_image", "var_dim_too_large", "invalid_argument", g.affine_image(z, y + 1, 1))
REJG("affine_image", "expr_dim_too_large", "invalid_argument", g.affine_image(x, z + 1, 1))
REJG("affine_preimage", "zero_denominator", "invalid_argument", g.affine_preimage(x, y + 1, 0))
REJG("affine_preimage", "var_dim_too_large", "invalid_argument", g.affine_preimage(z, y + 1, 1))
REJG("affine_preimage", "expr_dim_too_large", "invalid_argument", g.affine_preimage(x, z + 1, 1))
REJG("generalized_affine_image", "zero_denominator", "invalid_argument", g.generalized_affine_image(x, EQUAL, y + 1, 0, 2))
REJG("generalized_affine_image", "var_dim_too_large", "invalid_argument", g.generalized_affine_image(z, EQUAL, y + 1, 1, 2))
REJG("generalized_affine_image", "expr_dim_too_large", "invalid_argument", g.generalized_affine_image(x, EQUAL, z + 1, 1, 2))
REJG("generalized_affine_image_lhs_rhs", "lhs_dim_too_large", "invalid_argument", g.generalized_affine_image(x + z, EQUAL, y, 2))
REJG("generalized_affine_image_lhs_rhs", "rhs_dim_too_large", "invalid_argument", g.generalized_affine_image(x + y, EQUAL, z, 2))
REJG("generalized_affine_preimage", "zero_denominator", "invalid_argument", g.generalized_affine_preimage(x, EQUAL, y + 1, 0, 2))
REJG("generalized_affine_preimage", "var_dim_too_large", "invalid_argument", g.generalized_affine_preimage(z, EQUAL, y + 1, 1, 2))
REJG("generalized_affine_preimage_lhs_rhs", "lhs_dim_too_large", "invalid_argument", g.generalized_affine_preimage(x + z, EQUAL, y, 2))
REJG("bounded_affine_image", "zero_denominator", "invalid_argument", g.bounded_affine_image(x, y, y + 1, 0))
REJG("bounded_affine_image", "lb_dim_too_large", "invalid_argument", g.bounded_affine_image(x, z, y + 1, 1))
REJG("bounded_affine_image", "var_dim_too_large", "invalid_argument", g.bounded_affine_image(z, y, y + 1, 1))
REJG("bounded_affine_preimage", "zero_denominator", "invalid_argument", g.bounded_affine_preimage(x, y, y + 1, 0))
REJG("bounded_affine_preimage", "ub_dim_too_large", "invalid_argument", g.bounded_affine_preimage(x, y, z + 1, 1))
REJG("congruence_widening_assign", "dim_mismatch", "invalid_argument", g.congruence_widening_assign(h))
REJG("generator_widening_assign", "dim_mismatch", "invalid_argument", g.generator_widening_assign(h))
REJG("widening_assign", "dim_mismatch", "invalid_argument", g.widening_assign(h))
REJG("limited_congruence_extrapolation_assign", "cgs_dim_too_large", "invalid_argument", Grid u(g); Congruence_System cgs; cgs.insert((z %= 0) / 2); g.limited_congruence_extrapolation_assign(u, cgs))
REJG("limited_generator_extrapolation_assign", "dim_mismatch", "invalid_argument", Congruence_System cgs; cgs.insert((x %= 0) / 2); g.limited_generator_extrapolation_assign(h, cgs))
REJG("limited_extrapolation_assign", "cgs_dim_too_large", "invalid_argument", Grid u(g); Congruence_System cgs; cgs.insert((z %= 0) / 2); g.limited_extrapolation_assign(u, cgs))
REJG("unconstrain", "dim_too_large", "invalid_argument", g.unconstrain(z))
REJG("unconstrain_set", "dim_too_large", "invalid_argument", Variables_Set vs; vs.insert(x); vs.insert(z); g.unconstrain(vs))
REJG("remove_space_dimensions", "dim_too_large", "invalid_argument", Variables_Set vs; vs.insert(z); g.remove_space_dimensions(vs))
REJG("remove_higher_space_dimensions", "dim_too_large", "invalid_argument", g.remove_higher_space_dimensions(5))
REJG("expand_space_dimension", "dim_too_large", "invalid_argument", g.expand_space_dimension(z, 1))
REJG("expand_space_dimension", "space_dimension_overflow", "length_error", g.expand_space_dimension(x, Grid::max_space_dimension()))
REJG("fold_space_dimensions", "dest_in_set", "invalid_argument", Variables_Set vs; vs.insert(x); g.fold_space_dimensions(vs, x))
REJG("fold_space_dimensions", "dest_dim_too_large", "invalid_argument", Variables_Set vs; vs.insert(x); g.fold_space_dimensions(vs, z))
REJG("fold_space_dimensions", "set_dim_too_large", "invalid_argument", Variables_Set vs; vs.insert(z); g.fold_space_dimensions(vs, x))
REJG("add_space_dimensions_and_embed", "space_dimension_overflow", "length_error", g.add_space_dimensions_and_embed(Grid::max_space_dimension()))
REJG("add_space_dimensions_and_project", "space_dimension_overflow", "length_error", g.add_space_dimensions_and_project(Grid::max_space_dimension()))
REJG("concatenate_assign", "space_dimension_overflow", "length_error", Grid big(Grid::max_space_dimension(), EMPTY); g.concatenate_assign(big))
REJG("relation_with_congruence", "dim_too_large", "invalid_argument", (void) g.relation_with((z %= 1) / 2))
REJG("relation_with_constraint", "dim_too_large", "invalid_argument", (void) g.relation_with(z >= 1))
REJG("relation_with_grid_generator", "dim_too_large", "invalid_argument", (void) g.relation_with(grid_point(z)))
REJG("relation_with_generator", "dim_too_large", "invalid_argument", (void) g.relation_with(point(z)))
REJG("maximize", "dim_too_large", "invalid_argument", Coefficient a; Coefficient b; bool m; (void) g.maximize(z, a, b, m))
REJG("minimize", "dim_too_large", "invalid_argument", Coefficient a; Coefficient b; bool m; Generator w = point(); (void) g.minimize(x + z, a, b, m, w))
REJG("bounds_from_above", "dim_too_large", "invalid_argument", (void) g.bounds_from_above(z))
REJG("frequency", "dim_too_large", "invalid_argument", Coefficient a; Coefficient b; Coefficient cc; Coefficient d; (void) g.frequency(z, a, b, cc, d))
REJG("constrains", "dim_too_large", "invalid_argument", (void) g.constrains(z))
REJG("wrap_assign", "dim_too_large", "invalid_argument", Variables_Set vs; vs.insert(z); g.wrap_assign(vs, BITS_8, UNSIGNED, OVERFLOW_WRAPS))

REJECT("Grid", "add_constraint", "inequality_on_empty_receiver") { Grid g(2, EMPTY); Grid g0(g); r.call("invalid_argument", [&] { g.add_constraint(Variable(0) >= 1); }); r.unchanged("receiver", g, g0); }
REJECT("Grid", "add_constraints", "inequality_on_empty_receiver") { Grid g(2, EMPTY); Grid g0(g); Constraint_System cs; cs.insert(Variable(1) <= 3); r.call("invalid_argument", [&] { g.add_constraints(cs); }); r.unchanged("receiver", g, g0); }
#define REJ_GEMPTY(cls, stmt) REJECT("Grid", "add_grid_generator", cls) { Variable x(0), y(1); Grid g(2, EMPTY); if (coin()) { Grid t(2); t.add_congruence((x %= 0) / 2); t.add_congruence((x %= 1) / 2); g = t; if (coin()) (void) g.is_empty(); } Grid g0(g); \
    r.call("invalid_argument", [&] { stmt; }); r.unchanged("receiver", g, g0); }
REJ_GEMPTY("parameter_into_empty", g.add_grid_generator(parameter(x)))
REJ_GEMPTY("line_into_empty", g.add_grid_generator(grid_line(x + y)))
REJ_GEMPTY("generators_without_point_into_empty", Grid_Generator_System gs; gs.insert(grid_line(x)); gs.insert(parameter(y)); g.add_grid_generators(gs))
REJ_GEMPTY("recycled_generators_without_point_into_empty", Grid_Generator_System gs; gs.insert(grid_line(x)); gs.insert(parameter(y)); g.add_recycled_grid_generators(gs))

REJECT("Grid", "construct", "space_dimension_overflow") { r.call("length_error", [&] { Grid g(Grid::max_space_dimension() + 1); }); }
REJECT("Grid", "construct_from_constraints", "inequality") { Constraint_System cs; cs.insert(Variable(0) == 1); cs.insert(Variable(1) >= 0); r.call("invalid_argument", [&] { Grid g(cs); }); }
REJECT("Grid", "construct_from_generators", "no_point") { Grid_Generator_System gs; gs.insert(grid_line(Variable(0))); gs.insert(parameter(Variable(1))); r.call("invalid_argument", [&] { Grid g(gs); }); }
REJECT("Grid_Generator", "grid_point", "zero_divisor") { r.call("invalid_argument", [&] { (void) grid_point(Variable(0), 0); }); }
REJECT("Grid_Generator", "parameter", "zero_divisor") { r.call("invalid_argument", [&] { (void) parameter(Variable(0), 0); }); }
REJECT("Grid_Generator", "grid_line", "origin_direction") { r.call("invalid_argument", [&] { (void) grid_line(0 * Variable(1)); }); }
REJECT("Grid_Generator", "divisor", "of_a_line") { Grid_Generator g = grid_line(Variable(0)); r.call("invalid_argument", [&] { (void) g.divisor(); }); }
REJECT("Grid_Generator", "coefficient", "dim_too_large") { Grid_Generator g = grid_point(Variable(0)); r.call("invalid_argument", [&] { (void) g.coefficient(Variable(3)); }); }
} // namespace
