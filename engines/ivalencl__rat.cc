// ivalencl, policy rat_oc: Rational_Interval
#include "ivalencl_impl.hh"
#include "interfaces/interfaced_boxes.hh"
namespace ivx { void case_rat() { run_policy<Rational_Interval >("rat_oc", K_EXACT_OC); } }
