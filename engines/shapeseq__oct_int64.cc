// shapeseq: instantiation of the shape adapter for Octagonal_Shape<int64_t> (see shapeseq.hh).
#include "shapeseq.hh"
SHAPESEQ_REGISTER(oct_int64, Parma_Polyhedra_Library::Octagonal_Shape<int64_t>)
