// widenchain — Pointset_Powerset<Grid>: BHZ03 widening with Grid_Certificate, BGP99 extrapolation.
#include "wc_grid.hh"

using namespace wc;

namespace {
typedef Pointset_Powerset<Grid> PS;

struct GPOp { std::string name; bool widening; std::function<void(PS&, const PS&)> call; };

struct PpsGridChain {
  int n; bool twin_reported; Congruence_System lim_cgs;
  PpsGridChain() : n(0), twin_reported(false) {}
  static std::string key(const char* mon, const std::string& op, const std::string& what = "") { return std::string("C08.") + mon + ".Pointset_Powerset<Grid>." + op + what; }

  bool obs(const PS& ps, std::vector<Lattice>& v) { v.clear(); for (PS::const_iterator i = ps.begin(); i != ps.end(); ++i) { Lattice l; if (!obs_grid(i->pointset(), l)) return false; v.push_back(l); } return true; }
  static std::string show_ps(const std::vector<Lattice>& v) { std::string s = "["; for (size_t i = 0; i < v.size(); ++i) s += (i ? " | " : "") + show(v[i]); return s + "]"; }
  static bool same_collection(const std::vector<Lattice>& A, const std::vector<Lattice>& B) {
    for (int k = 0; k < 2; ++k) { const std::vector<Lattice>& U = k ? B : A; const std::vector<Lattice>& V = k ? A : B;
      for (size_t i = 0; i < U.size(); ++i) { if (U[i].empty) continue; bool f = false; for (size_t j = 0; j < V.size() && !f; ++j) f = ref::same(U[i], V[j]); if (!f) return false; } }
    return true;
  }
  // U subseteq union V: 1 yes (every piece inside one piece), 0 refuted (witness), -1 undecided
  int union_included(const std::vector<Lattice>& U, const std::vector<Lattice>& V, Vec& wit) {
    int res = 1;
    for (size_t i = 0; i < U.size(); ++i) {
      if (U[i].empty) continue;
      bool f = false; for (size_t j = 0; j < V.size() && !f; ++j) f = ref::included(U[i], V[j]);
      if (f) continue;
      Lattice l = U[i]; ref::canonicalize(l);
      for (int s = 0; s < 60; ++s) {
        Vec x = l.p; for (size_t q = 0; q < l.params.size(); ++q) { Q k = rnd(-3, 3); for (int d = 0; d < n; ++d) x[d] += k * l.params[q][d]; }
        for (size_t q = 0; q < l.lines.size(); ++q) { Q k(rnd(-5, 5), rnd(1, 3)); k.canonicalize(); for (int d = 0; d < n; ++d) x[d] += k * l.lines[q][d]; }
        bool in = false; for (size_t j = 0; j < V.size() && !in; ++j) in = ref::member(V[j], x);
        if (!in) { wit = x; return 0; }
      }
      res = -1;
    }
    return res;
  }
  std::vector<GPOp> ops() {
    std::vector<GPOp> v;
    { GPOp o; o.name = "BHZ03_widening_assign<Grid_Certificate>(widening_assign)"; o.widening = true; o.call = [](PS& x, const PS& y) { x.BHZ03_widening_assign<Grid_Certificate>(y, widen_fun_ref(&Grid::widening_assign)); }; v.push_back(o); v.push_back(o); }
    { GPOp o; o.name = "BHZ03_widening_assign<Grid_Certificate>(congruence_widening_assign)"; o.widening = true; o.call = [](PS& x, const PS& y) { x.BHZ03_widening_assign<Grid_Certificate>(y, widen_fun_ref(&Grid::congruence_widening_assign)); }; v.push_back(o); }
    { GPOp o; o.name = "BHZ03_widening_assign<Grid_Certificate>(generator_widening_assign)"; o.widening = true; o.call = [](PS& x, const PS& y) { x.BHZ03_widening_assign<Grid_Certificate>(y, widen_fun_ref(&Grid::generator_widening_assign)); }; v.push_back(o); }
    { GPOp o; o.name = "BHZ03_widening_assign<Grid_Certificate>(limited_extrapolation_assign)"; o.widening = false; const Congruence_System* cs = &lim_cgs;
      o.call = [cs](PS& x, const PS& y) { x.BHZ03_widening_assign<Grid_Certificate>(y, widen_fun_ref(&Grid::limited_extrapolation_assign, *cs)); }; v.push_back(o); }
    { GPOp o; unsigned md = rnd(0, 4); o.name = "BGP99_extrapolation_assign(widening_assign)"; o.widening = false; o.call = [md](PS& x, const PS& y) { x.BGP99_extrapolation_assign(y, widen_fun_ref(&Grid::widening_assign), md); }; v.push_back(o); }
    return v;
  }
  static int gcmp(const GMeas& a, const GMeas& b) { if (a.eq != b.eq) return a.eq > b.eq ? 1 : -1; if (a.proper != b.proper) return a.proper > b.proper ? 1 : -1; return 0; }
  int own_decrease(const PS& y, const PS& z, const std::vector<Lattice>& LY, const std::vector<Lattice>& LZ, std::string& txt) {
    Lattice HY, HZ; HY.n = HZ.n = n; HY.empty = HZ.empty = true;
    for (size_t i = 0; i < LY.size(); ++i) HY = lat_join(HY, LY[i]);
    for (size_t i = 0; i < LZ.size(); ++i) HZ = lat_join(HZ, LZ[i]);
    GMeas my = grid_measure(HY), mz = grid_measure(HZ);
    txt = "hull(y) " + show(my) + " hull(result) " + show(mz);
    int hd = grid_decrease(my, mz);
    if (!HY.empty && !HZ.empty) { // cross-check with PPL's own join and certificate
      Grid gy(n, EMPTY), gz(n, EMPTY); for (PS::const_iterator i = y.begin(); i != y.end(); ++i) gy.upper_bound_assign(i->pointset()); for (PS::const_iterator i = z.begin(); i != z.end(); ++i) gz.upper_bound_assign(i->pointset());
      Grid_Certificate c(gy); int pc = c.compare(gz); hx::count("certificate_ppl_compares");
      if (pc != hd) { txt += "; Grid_Certificate on PPL's joins says " + std::to_string(pc) + ", own " + std::to_string(hd); return -3; }
    }
    if (hd != 0) return hd;
    std::vector<GMeas> MY, MZ; for (size_t i = 0; i < LY.size(); ++i) if (!LY[i].empty) MY.push_back(grid_measure(LY[i])); for (size_t i = 0; i < LZ.size(); ++i) if (!LZ[i].empty) MZ.push_back(grid_measure(LZ[i]));
    txt += "; disjunct certificates y {"; for (size_t i = 0; i < MY.size(); ++i) txt += show(MY[i]); txt += "} result {"; for (size_t i = 0; i < MZ.size(); ++i) txt += show(MZ[i]); txt += "}";
    if (MY.size() > 1 && MZ.size() == 1) return 1;
    if (MY.size() <= 1) return MZ.size() <= 1 ? 0 : -1;
    auto gt = [](const GMeas& a, const GMeas& b) { return gcmp(a, b) == 1; };
    std::sort(MY.begin(), MY.end(), gt); std::sort(MZ.begin(), MZ.end(), gt);
    for (size_t i = 0; i < MY.size() && i < MZ.size(); ++i) { int c = gcmp(MZ[i], MY[i]); if (c == 1) return -1; if (c == -1) return 1; }
    if (MY.size() == MZ.size()) return 0;
    return MZ.size() < MY.size() ? 1 : -1;
  }
  PS twin(const PS& p, bool permute, std::string& desc) {
    std::vector<Grid> v; for (PS::const_iterator i = p.begin(); i != p.end(); ++i) { std::string d; v.push_back(grid_twin(i->pointset(), rnd(0, 9), d)); desc += (desc.empty() ? "" : ",") + d; }
    if (permute) { std::shuffle(v.begin(), v.end(), hx::rng()); desc += ",permuted"; }
    PS q(n, EMPTY); for (size_t i = 0; i < v.size(); ++i) q.add_disjunct(v[i]); q.omega_reduce(); return q;
  }
  bool step(const GPOp& op, const PS& y, const PS& x, PS& z, bool& stationary) {
    std::vector<Lattice> LY, LX, LZ, LY2;
    if (!obs(y, LY) || !obs(x, LX)) { hx::inconclusive("grid_descriptions_disagree"); return false; }
    checked();
    for (size_t i = 0; i < LY.size(); ++i) { bool f = LY[i].empty; for (size_t j = 0; j < LX.size() && !f; ++j) f = ref::included(LY[i], LX[j]); if (!f) { violation("harness.bug.precondition_entails.Pointset_Powerset<Grid>", "y does not definitely entail x"); return false; } }
    hx::count("op." + op.name);
    PS yc(y), x_t(x), y_t(y);
    z = x;
    tr(" | z=x; z." + op.name + "(y)");
    op.call(z, yc);
    if (!obs(z, LZ)) { hx::inconclusive("grid_descriptions_disagree"); return false; }
    Vec wit; checked(); hx::count("superset_checks");
    int r = union_included(LX, LZ, wit);
    if (r == 0) {
      bool inx = false, inz = false; for (size_t i = 0; i < LX.size(); ++i) if (ref::member(LX[i], wit)) inx = true;
      // re-validation against the congruences PPL reports for the result
      for (PS::const_iterator i = z.begin(); i != z.end(); ++i) { Grid c(i->pointset()); std::vector<Cg> cg = conv_cgs(c.congruences(), n); bool all = !Grid(i->pointset()).is_empty(); for (size_t k = 0; k < cg.size(); ++k) if (!ref::sat_cg(cg[k], wit)) all = false; if (all) inz = true; }
      if (!inx || inz) { violation("harness.bug.superset_witness", op.name); return false; }
      // limited extrapolation selects the congruences to keep with Grid::relation_with(Congruence), known to ignore point divisors
      bool nonunit = false; for (PS::const_iterator i = x.begin(); i != x.end(); ++i) { Grid c(i->pointset()); Grid_Generator_System gs = c.grid_generators(); for (Grid_Generator_System::const_iterator g = gs.begin(); g != gs.end(); ++g) if (g->is_point() && g->divisor() != 1) nonunit = true; }
      violation(key("superset", op.name, (nonunit && op.name.find("limited") != std::string::npos) ? ":point-divisor-not-1" : ""), "point " + show(wit) + " of the larger argument " + show_ps(LX) + " is not in the result " + show_ps(LZ) + "; y=" + show_ps(LY)); return false;
    }
    if (r < 0) hx::inconclusive("lattice_union_undecided");
    checked();
    if (!obs(yc, LY2) || !same_collection(LY, LY2)) { violation(key("argument", op.name), "the smaller argument changed: " + show_ps(LY) + " -> " + show_ps(LY2)); return false; }
    stationary = same_collection(LZ, LY);
    bool kept = same_collection(LZ, LX);
    hx::distinct("step|PPS<Grid>|" + op.name + "|" + std::to_string(LX.size()) + "|" + std::to_string(LY.size()) + "|" + std::to_string(LZ.size()) + "|" + (stationary ? "stationary" : kept ? "kept" : "widened"));
    if (!kept) hx::count("widened." + op.name);
    if (op.widening && !stationary) {
      std::string txt; checked(); hx::count("certificate_checks");
      int d = own_decrease(y, z, LY, LZ, txt);
      if (d == -3) { violation(key("certificate", op.name, ":ppl-compare"), txt + "; y=" + show_ps(LY) + " result=" + show_ps(LZ)); return false; }
      if (d != 1) { violation(key("certificate", op.name), "non-stationary step without strict decrease of the recomputed powerset certificate: " + txt + "; y=" + show_ps(LY) + " x=" + show_ps(LX) + " result=" + show_ps(LZ)); return false; }
    }
    if (!twin_reported && coin(70)) {
      bool perm = op.name.find("BGP99") == std::string::npos && coin(35); std::string dx, dy;
      PS x2 = twin(x_t, perm, dx), y2 = twin(y_t, perm && coin(), dy);
      std::vector<Lattice> a, b; checked(2);
      if (!obs(x2, a) || !obs(y2, b) || !same_collection(a, LX) || !same_collection(b, LY)) hx::inconclusive("twin_build_mismatch.Pointset_Powerset<Grid>");
      else {
        tr(" | x'=twin(x:" + dx + "); y'=twin(y:" + dy + "); x'." + op.name + "(y')");
        op.call(x2, y2);
        std::vector<Lattice> LZ2; checked(); hx::count("twin_checks"); hx::count(perm ? "twin.permuted" : "twin.same-order");
        if (!obs(x2, LZ2)) { hx::inconclusive("grid_descriptions_disagree"); return false; }
        bool flavour_free = op.name.find("(widening_assign)") != std::string::npos || op.name.find("limited_extrapolation") != std::string::npos;   // Grid::widening_assign chooses its flavour from the representation (documented)
        if (!flavour_free) {
          Vec w; int u = union_included(LZ, LZ2, w), v2 = u == 1 ? union_included(LZ2, LZ, w) : u;
          if (u == 0 || v2 == 0) { twin_reported = true; std::string cls = perm ? ":disjunct-order" : "";
            violation(key("twin", op.name, cls), "x " + show_ps(LX) + " y " + show_ps(LY) + ": result " + show_ps(LZ) + " but on twins (" + dx + " ; " + dy + ") " + show_ps(LZ2) + "; point " + show(w) + " is in one result only");
            if (cls.empty()) return false; }
          else if (u < 0 || v2 < 0) hx::inconclusive("lattice_union_undecided");
        }
      }
    }
    return true;
  }
  Grid random_grid(int it) {
    Grid g(n, EMPTY); Vec p(n); for (int d = 0; d < n; ++d) { p[d] = Q(rnd(-3 - it, 3 + it), rnd(1, 2)); p[d].canonicalize(); }
    g.add_grid_generator(gg_from(p, n, 0));
    int np = rnd(0, n); for (int i = 0; i < np; ++i) { Vec v(n); for (int d = 0; d < n; ++d) { v[d] = Q(rnd(-4, 4), rnd(1, 2)); v[d].canonicalize(); } bool z = true; for (int d = 0; d < n; ++d) if (v[d] != 0) z = false; if (z) continue; g.add_grid_generator(gg_from(v, n, coin(90) ? 1 : 2)); }
    return g;
  }
  PS grow(const PS& y, int it, std::string& text) {
    PS x(y); std::ostringstream t; int m = rnd(0, 99);
    std::vector<Grid> ds; for (PS::const_iterator i = y.begin(); i != y.end(); ++i) ds.push_back(i->pointset());
    if (ds.empty() || m < 25 || n == 0) { Grid g = random_grid(it); x.add_disjunct(g); Grid c(g); t << "+disjunct{" << str(c.grid_generators()) << "}"; }
    else if (m < 45) { Grid g = ds[rnd(0, (int) ds.size() - 1)]; Variable v(rnd(0, n - 1)); int den = rnd(1, 3); g.affine_image(v, den * Linear_Expression(v) + rnd(1, 2), den); x.add_disjunct(g); t << "+shifted-disjunct(" << str(v) << ")"; }
    else if (m < 75) { Grid g = ds[rnd(0, (int) ds.size() - 1)]; Grid h = random_grid(it); g.upper_bound_assign(h); x.add_disjunct(g); t << "+grown-disjunct"; }
    else if (m < 85 && ds.size() >= 2) { Grid g = ds[0]; g.upper_bound_assign(ds[1]); x.add_disjunct(g); t << "+join-of-two"; }
    else t << "same";
    x.omega_reduce(); text = t.str(); return x;
  }
  void run() {
    int dk = rnd(0, 99); n = dk < 3 ? 0 : dk < 40 ? 1 : dk < 90 ? 2 : 3;
    { int k = rnd(0, 2); for (int i = 0; i < k; ++i) { Cg c; c.a.assign(n, Q(0)); for (int d = 0; d < n; ++d) if (coin(65)) c.a[d] = rnd(-2, 2); c.b = rnd(-2, 2); c.m = rnd(0, 3); lim_cgs.insert(cg_from(c, n)); } }
    std::vector<GPOp> all = ops(); const GPOp& op = all[rnd(0, (int) all.size() - 1)];
    PS y(n, EMPTY); int nd = coin(8) ? 0 : rnd(1, 3); for (int i = 0; i < nd; ++i) y.add_disjunct(random_grid(0)); y.omega_reduce();
    { std::vector<Lattice> l; obs(y, l); std::ostringstream o; o << "Pointset_Powerset<Grid> n=" << n << " chain of " << op.name; if (op.name.find("limited") != std::string::npos) o << " cgs=" << str(lim_cgs); o << " y0=" << show_ps(l); tr(o.str()); }
    hx::count("chains.Pointset_Powerset<Grid>." + op.name);
    int cap = op.widening ? (int) hx::opt().geti("cap", 200) : 6, quiet = 0, len = 0, it = 0;
    for (; it < cap; ++it) {
      hx::count("steps");
      try {
        Weight_Guard wg(400000000ULL);
        std::string gt; PS x = grow(y, it, gt);
        if (x.size() == 0) continue;
        if (x.size() > 6) { hx::inconclusive("pps_size_cap"); break; }
        tr(" || x=y (+) " + gt);
        PS z(x); bool stationary = false;
        if (!step(op, y, x, z, stationary)) return;
        if (stationary) { if (++quiet >= 3) break; } else { quiet = 0; ++len; }
        z.omega_reduce();
        if (z.size() > 7) { hx::inconclusive("pps_size_cap"); break; }
        y = z;
      } catch (const Logical_Timeout&) { violation(key("hang", op.name), "logical-time budget exceeded"); return;
      } catch (const std::exception& e) { violation(key("unexpected_exception", op.name, std::string(".") + typeid(e).name()), e.what()); return; }
    }
    if (it >= cap && op.widening) hx::inconclusive("chain_cap.Pointset_Powerset<Grid>");
    std::map<std::string, unsigned long>& c = hx::st().counters; std::string k = "max_chain_len.Pointset_Powerset<Grid>." + op.name; if (c[k] < (unsigned long) len) c[k] = len;
    hx::count("nonstationary_steps", len);
  }
};
} // namespace

void wc::run_ppsgrid_case() { PpsGridChain c; c.run(); }
