// Standalone reproducers for the C17 findings of engine wrapseq.
// g++ -std=gnu++17 -frounding-math -I/repo -I/repo/src c17_repro.cc <libppl.a> -lgmpxx -lgmp ;  ./a.out [hang]
#include "ppl_header.hh"
#include <iostream>
#include <cstring>
using namespace Parma_Polyhedra_Library;
using namespace Parma_Polyhedra_Library::IO_Operators;
int main(int argc, char** argv) {
  Variable A(0), B(1), C(2);
  { // R1 wrap_assign.hh: collective wrapping, product of per-variable quadrant counts (2*2) exceeds threshold 3
    C_Polyhedron ph(2); ph.add_constraint(A >= -2); ph.add_constraint(A <= 2); ph.add_constraint(B >= -2); ph.add_constraint(B <= 2);
    Variables_Set vs; vs.insert(A); vs.insert(B);
    ph.wrap_assign(vs, BITS_8, UNSIGNED, OVERFLOW_WRAPS, 0, 3, false);
    std::cout << "R1: " << ph << "   expected to contain (0,255) = wrap of (0,-1); B is left unwrapped in [-2,2]\n";
  }
  Variables_Set va; va.insert(A); Variables_Set vb; vb.insert(B);
  { Grid g(1); g.add_constraint(A == 32769); g.wrap_assign(va, BITS_16, SIGNED_2_COMPLEMENT, OVERFLOW_WRAPS);
    std::cout << "R2: " << g << "   expected A = -32767\n"; }
  { Grid g(1); g.add_congruence((A %= -128) / 256); g.wrap_assign(va, BITS_8, SIGNED_2_COMPLEMENT, OVERFLOW_WRAPS);
    std::cout << "R2b: " << g << "   expected A = -128 (128 is outside the signed 8-bit range)\n"; }
  { Grid g(2); g.add_congruence((A - 2*B %= 0) / 100); g.wrap_assign(vb, BITS_8, UNSIGNED, OVERFLOW_WRAPS);
    Grid q(2, EMPTY); q.add_grid_generator(grid_point(-2*A + 255*B));
    std::cout << "R3: " << g << "   contains (-2,255) = wrap of (-2,-1): " << g.contains(q) << " (expected 1)\n"; }
  { Grid g(1); g.add_congruence((A %= 5) / 128); g.wrap_assign(va, BITS_8, UNSIGNED, OVERFLOW_IMPOSSIBLE);
    std::cout << "R4: " << g << "   5 and 133 are both in 0..255: both must be kept\n"; }
  { Grid g(1, EMPTY); g.add_grid_generator(grid_point(1*A, 3)); g.add_grid_generator(parameter(256*A, 3));
    g.wrap_assign(va, BITS_8, UNSIGNED, OVERFLOW_WRAPS);
    std::cout << "R5: " << g << "   A in {(1+256k)/3}, integer values 171+256j: must contain 171\n"; }
  if (argc > 1 && !strcmp(argv[1], "hang")) {
    C_Polyhedron ph(3); ph.add_constraint(B <= 0); ph.add_constraint(-2*A + 2*B + C >= 1);
    std::cout << "R6: contains_integer_point() on {B <= 0, -2A+2B+C >= 1} (contains (0,0,1)) ..." << std::endl;
    std::cout << ph.contains_integer_point() << "\n";
  }
  return 0;
}
