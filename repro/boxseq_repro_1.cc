#include "ppl_header.hh"
#include "interfaces/interfaced_boxes.hh"
#include <iostream>
using namespace Parma_Polyhedra_Library; using namespace Parma_Polyhedra_Library::IO_Operators;
int main(int argc, char** argv) {
  int t = argc > 1 ? atoi(argv[1]) : 0; Variable A(0), B(1), C(2);
  if (t == 1) { // bounded_affine_preimage: var not in ub_expr -> division by zero
    Rational_Box b(1); b.add_constraint(A >= 1); b.add_constraint(A <= 2);
    C_Polyhedron p(1); p.add_constraint(A >= 1); p.add_constraint(A <= 2);
    p.bounded_affine_preimage(A, -A - 3, Linear_Expression(6), 3); std::cout << "poly: " << p.constraints() << std::endl;
    b.bounded_affine_preimage(A, -A - 3, Linear_Expression(6), 3); std::cout << "box: " << b.constraints() << std::endl; }
  if (t == 2) { // generalized_affine_preimage(lhs, rel, rhs): lhs var not in rhs stays constrained
    Rational_Box b(2); b.add_constraint(A <= 0); b.add_constraint(B == 0);
    C_Polyhedron p(b.constraints());
    p.generalized_affine_preimage(B + 0 * A, LESS_OR_EQUAL, A + 1); std::cout << "poly: " << p.constraints() << std::endl;
    b.generalized_affine_preimage(B + 0 * A, LESS_OR_EQUAL, A + 1); std::cout << "box: " << b.constraints() << std::endl; }
  if (t == 3) { // generalized_affine_image(lhs, rel, rhs) with three lhs variables: the middle one is kept
    Rational_Box b(3); b.add_constraint(A == 0); b.add_constraint(B == 0); b.add_constraint(C == 0);
    C_Polyhedron p(b.constraints());
    p.generalized_affine_image(A + B + C, LESS_OR_EQUAL, Linear_Expression(1)); std::cout << "poly: " << p.constraints() << std::endl;
    b.generalized_affine_image(A + B + C, LESS_OR_EQUAL, Linear_Expression(1)); std::cout << "box: " << b.constraints() << std::endl; }
  if (t == 4) { // generalized_affine_preimage(var, rel, expr) with var not in expr
    Rational_Box b(1); b.add_constraint(3 * A == 1);
    C_Polyhedron p(b.constraints());
    p.generalized_affine_preimage(A, GREATER_OR_EQUAL, Linear_Expression(-2), 1); std::cout << "poly: " << p.constraints() << std::endl;
    b.generalized_affine_preimage(A, GREATER_OR_EQUAL, Linear_Expression(-2), 1); std::cout << "box: " << b.constraints() << " empty=" << b.is_empty() << std::endl; }
  if (t == 5) { // remove_higher_space_dimensions on an empty box whose emptiness is not yet detected
    Rational_Box b(2); b.add_constraint(B >= 3); b.add_constraint(B <= 2);
    b.remove_higher_space_dimensions(1); std::cout << "box: " << b.constraints() << " empty=" << b.is_empty() << std::endl; }
  if (t == 6) { // relation_with(Constraint): x <= c against [l,+inf) with l > c
    Rational_Box b(1); b.add_constraint(A >= 3);
    std::cout << b.relation_with(-A >= 1) << " / " << b.relation_with(A <= 1) << " / " << b.relation_with(A <= 5) << std::endl;
    Rational_Box b2(1); b2.add_constraint(A <= -3);
    std::cout << b2.relation_with(A >= 1) << std::endl; }
  if (t == 7) { // relation_with(Generator) ignores the dimensions above g.space_dimension()
    Rational_Box b(1); b.add_constraint(A >= 1);
    std::cout << b.relation_with(point(0 * A)) << " | " << b.relation_with(point()) << std::endl; }
  if (t == 8) { // Box(ph, POLYNOMIAL) throws length_error
    NNC_Polyhedron p(2); p.add_constraint(Linear_Expression(0) > 1); p.add_constraint(2 * A - B >= -93);
    try { Rational_Box b(p, POLYNOMIAL_COMPLEXITY); std::cout << b.constraints() << std::endl; } catch (const std::exception& e) { std::cout << "exception " << typeid(e).name() << ": " << e.what() << std::endl; } }
  if (t == 9) { // float box, 64-bit wrap
    Double_Box b(1); b.add_constraint(A >= 0); b.add_constraint(A <= 5); Variables_Set vs; vs.insert(A);
    b.wrap_assign(vs, BITS_64, SIGNED_2_COMPLEMENT, OVERFLOW_WRAPS); std::cout << b.constraints() << std::endl; }
  if (t == 10) { // int64 box, overflowing product in propagate
    Int64_Box b(2); b.add_constraint(B >= Coefficient("9223372036854775800")); b.add_constraint(A >= 0); b.add_constraint(A <= 5);
    b.refine_with_constraint(2 * A - 21 * B >= 3); std::cout << b.constraints() << std::endl; }
  if (t == 11) { // native int: negative divisor rounds inward
    Int32_Box b(1); b.refine_with_constraint(-2 * A >= -3); std::cout << b.constraints() << std::endl;
    Z_Box z(1); z.refine_with_constraint(-2 * A >= -3); std::cout << "mpz: " << z.constraints() << std::endl;
    Int32_Box c(1); c.refine_with_constraint(2 * A <= 3); std::cout << c.constraints() << std::endl; }
  if (t == 12) { Int32_Box b(1); b.propagate_constraint(-2 * A >= -3); std::cout << "int32 propagate: " << b.constraints() << std::endl;
    Z_Box z(1); z.propagate_constraint(-2 * A >= -3); std::cout << "mpz propagate: " << z.constraints() << std::endl;
    Int32_Box c(2); c.add_constraint(B >= -3); c.affine_preimage(B, -3 * B + 2, 3); std::cout << "int32 affine_preimage: " << c.constraints() << std::endl;
    Z_Box zc(2); zc.add_constraint(B >= -3); zc.affine_preimage(B, -3 * B + 2, 3); std::cout << "mpz affine_preimage: " << zc.constraints() << std::endl; }
  if (t == 13) { Rational_Box b(1); b.add_constraint(A == -1); b.generalized_affine_preimage(A, GREATER_OR_EQUAL, Linear_Expression(-2), 1); std::cout << "box: " << b.constraints() << " empty=" << b.is_empty() << std::endl;
    Rational_Box c(2); c.add_constraint(A >= 3); c.generalized_affine_preimage(A, LESS_OR_EQUAL, B, 2); std::cout << "box2: " << c.constraints() << " empty=" << c.is_empty() << std::endl; }
  if (t == 14) { NNC_Polyhedron p(2); p.add_constraint(Linear_Expression(0) > 1); p.add_constraint(2 * A - B >= -93); p.add_constraint(Linear_Expression(0) == 1);
    try { Rational_Box b(p, POLYNOMIAL_COMPLEXITY); std::cout << b.constraints() << std::endl; } catch (const std::exception& e) { std::cout << "exception " << typeid(e).name() << ": " << e.what() << std::endl; } }
  return 0;
}
