#include "ppl_header.hh"
#include <iostream>
using namespace Parma_Polyhedra_Library; using namespace Parma_Polyhedra_Library::IO_Operators;
template <typename S> void t(const char* name, int e10) {
  Variable A(0), B(1);
  S x(2); x.add_constraint(3*B >= -7); x.add_constraint(A <= 0);
  Coefficient big; mpz_ui_pow_ui(big.get_mpz_t(), 10, e10); big *= 2; big += 2;
  Coefficient n, d; bool m; Generator g(point());
  bool r = x.maximize(-B + big, n, d, m);
  std::cout << name << " max(-B + 2e" << e10 << "+2) over {B >= -7/3}: " << r << " " << n << "/" << d << std::endl;
  r = x.maximize(-B + big, n, d, m, g);
  std::cout << name << "   with point: " << r << " " << n << "/" << d << " at " << g << std::endl;
  r = x.maximize(-B + 5, n, d, m);
  std::cout << name << " max(-B + 5): " << r << " " << n << "/" << d << std::endl;
}
int main() {
  t<Octagonal_Shape<double> >("Oct<double>", 300);
  t<Octagonal_Shape<double> >("Oct<double>", 20);
  t<BD_Shape<double> >("BD<double>", 300);
  t<Octagonal_Shape<float> >("Oct<float>", 30);
  t<Octagonal_Shape<mpq_class> >("Oct<mpq>", 30);
}
