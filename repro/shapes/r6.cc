#include "ppl_header.hh"
#include <iostream>
using namespace Parma_Polyhedra_Library; using namespace Parma_Polyhedra_Library::IO_Operators;
int main(int argc, char** argv) {
  Variable A(0), B(1), C(2);
  int mode = argc > 1 ? atoi(argv[1]) : 0;
  BD_Shape<mpq_class> x(3);
  x.add_constraint(A - C == 6); x.add_constraint(A - C >= -1); x.add_constraint(-3*C >= 1); x.add_constraint(A - B >= -2);
  if (mode >= 1) (void) x.relation_with((-3*B + C %= 13) / 3);   // closes
  if (mode >= 2) (void) x.minimized_constraints();                // reduces
  x.ascii_dump(std::cout);
  x.generalized_affine_image(2*B - 2*C - 3, GREATER_OR_EQUAL, -2*B - 2*C - 1);
  std::cout << "after: " << x.constraints() << std::endl; x.ascii_dump(std::cout);
  BD_Shape<mpq_class> y(x); std::cout << "copy.constraints(): " << y.constraints() << "\n";
}
