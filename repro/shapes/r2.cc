#include "ppl_header.hh"
#include <iostream>
using namespace Parma_Polyhedra_Library; using namespace Parma_Polyhedra_Library::IO_Operators;
template <typename S> void dump(const char* t, const S& s) { std::cout << t << ": "; try { std::cout << s.constraints(); } catch (std::exception& e) { std::cout << "constraints() threw " << e.what(); } std::cout << std::endl; }
int main() {
  Variable A(0), B(1), C(2);
  { std::cout << "-- R2 concatenate_assign with an empty argument of positive dimension\n";
    BD_Shape<mpq_class> x(1), y(1, EMPTY); x.add_constraint(A == 1); x.concatenate_assign(y); dump("result (must be empty)", x); std::cout << "is_empty=" << x.is_empty() << std::endl; }
  { std::cout << "-- R3 relation_with(Congruence)\n";
    BD_Shape<mpq_class> x(1); x.add_constraint(A == -2); std::cout << "BD {A=-2} vs 2A=2 mod 2: " << x.relation_with((2*A %= 2) / 2) << "  (is_included expected)\n";
    Octagonal_Shape<mpq_class> o(1); o.add_constraint(A == -2); std::cout << "Oct {A=-2} vs 2A=2 mod 2: " << o.relation_with((2*A %= 2) / 2) << "\n";
    Octagonal_Shape<mpq_class> p(1); p.add_constraint(A >= 1); p.add_constraint(A <= 2); std::cout << "Oct {1<=A<=2} vs 3A=-1 mod 3 (A=5/3 is a solution): " << p.relation_with((3*A %= -1) / 3) << "\n";
    BD_Shape<mpq_class> q(1); q.add_constraint(A >= 1); q.add_constraint(A <= 2); std::cout << "BD {1<=A<=2} vs 3A=-1 mod 3: " << q.relation_with((3*A %= -1) / 3) << "\n"; }
  { std::cout << "-- R4 maximize with a sum that overflows T\n";
    BD_Shape<int8_t> x(2); x.add_constraint(A - B <= 121); Coefficient n, d; bool m; bool r = x.maximize(2*A - 2*B - 3, n, d, m); std::cout << "BD<int8> {A-B<=121} max(2A-2B-3) -> " << r << " " << n << "/" << d << " (true value 239)\n";
    Octagonal_Shape<int16_t> o(1); o.add_constraint(A >= -1); o.add_constraint(A <= 0); r = o.minimize(A - 32779, n, d, m); std::cout << "Oct<int16> {-1<=A<=0} min(A-32779) -> " << r << " " << n << "/" << d << " (true value -32780)\n"; }
  { std::cout << "-- R5 maximize of a constant on the universe octagon\n";
    Octagonal_Shape<mpq_class> o(2); Coefficient n, d; bool m; bool r = o.maximize(Linear_Expression(-1), n, d, m); std::cout << "Oct universe max(-1) -> " << r << " (true expected, value -1)\n";
    BD_Shape<mpq_class> b(2); r = b.maximize(Linear_Expression(-1), n, d, m); std::cout << "BD universe max(-1) -> " << r << "\n"; }
  { std::cout << "-- R6 affine_image with overflowing constant\n";
    BD_Shape<int8_t> x(2); x.add_constraint(B - A <= 1); x.affine_image(B, B + 378); dump("BD<int8> {B-A<=1} B:=B+378 (B-A<=379 not representable: must be dropped)", x); }
  { std::cout << "-- R8 denormal bound\n";
    BD_Shape<float> x(1); Coefficient big; mpz_ui_pow_ui(big.get_mpz_t(), 10, 42); x.add_constraint(-big * A >= 1); dump("BD<float> {A <= -1e-42}", x);
    BD_Shape<double> y(1); mpz_ui_pow_ui(big.get_mpz_t(), 10, 320); y.add_constraint(-big * A >= 1); dump("BD<double> {A <= -1e-320}", y); }
  { std::cout << "-- R9 NaN in the matrix\n";
    BD_Shape<int32_t> x(1); x.add_constraint(A >= 1073741820); x.add_constraint(A <= 2147483646); x.affine_preimage(A, 2*A + 1073741825, 3); dump("BD<int32> preimage", x);
    try { x.ascii_dump(std::cout); } catch (std::exception& e) { std::cout << "ascii_dump threw " << e.what() << "\n"; } }
  { std::cout << "-- R7 affine_preimage by a non-invertible expressible relation\n";
    BD_Shape<mpq_class> x(2); x.add_constraint(A <= 2); x.add_constraint(B >= 5); x.affine_preimage(A, B + 1); dump("BD {A<=2,B>=5} preimage A:=B+1 (exact result empty: B+1<=2 & B>=5)", x); }
  return 0;
}
