// Octagonal_Shape::simplify_using_context_assign reaches PPL_UNREACHABLE
#include "ppl_header.hh"
#include <iostream>
using namespace Parma_Polyhedra_Library; using namespace Parma_Polyhedra_Library::IO_Operators;
int main(int argc, char** argv) {
  Variable A(0), B(1);
  int which = argc > 1 ? atoi(argv[1]) : 0;
  if (which == 0) {
    Octagonal_Shape<mpq_class> x(2), y(2);
    x.add_constraint(B >= 3); y.add_constraint(A - B >= 1);
    std::cout << "x=" << x << " ctx=" << y << std::endl;
    bool r = x.simplify_using_context_assign(y);
    std::cout << r << " -> " << x << std::endl;
  } else if (which == 1) {
    Octagonal_Shape<mpq_class> x(1), y(1);
    x.add_constraint(A >= 3);
    std::cout << "x=" << x << " ctx=" << y << std::endl;
    bool r = x.simplify_using_context_assign(y);
    std::cout << r << " -> " << x << std::endl;
  } else {
    BD_Shape<mpq_class> x(2), y(2);
    x.add_constraint(B >= 3); y.add_constraint(A - B >= 1);
    bool r = x.simplify_using_context_assign(y);
    std::cout << r << " -> " << x << std::endl;
  }
}
