#include "ppl_header.hh"
#include <iostream>
using namespace Parma_Polyhedra_Library; using namespace Parma_Polyhedra_Library::IO_Operators;
int main() {
  Variable A(0), B(1);
  BD_Shape<int16_t> x0(2), x2(2);
  x0.add_constraint(B >= 32763);
  Constraint_System cs; cs.insert(-A >= -32766); x2.refine_with_constraints(cs);
  x0.upper_bound_assign(x0);
  Congruence_System cg; cg.insert((A - B %= -1) / 0); cg.insert((A - B %= 3) / 0); x0.add_congruences(cg);
  x0.ascii_dump(std::cout);
  x0.refine_with_constraint(103960*A > -1);
  x2.drop_some_non_integer_points(POLYNOMIAL_COMPLEXITY);
  x0.ascii_dump(std::cout);
  x0.simplify_using_context_assign(x2);
  std::cout << "after simplify\n"; x0.ascii_dump(std::cout);
  { BD_Shape<int16_t> c(x0); BD_Shape<mpq_class> q(c); std::cout << "A = " << q.constraints() << std::endl; }
  Congruence_System cg2; cg2.insert((B %= 32762) / 0); x0.add_congruences(cg2);
  x0.ascii_dump(std::cout);
  { BD_Shape<int16_t> c(x0); BD_Shape<mpq_class> q(c); std::cout << "R = " << q.constraints() << std::endl; }
}
