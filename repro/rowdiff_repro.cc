// Standalone reproducers for the defects met by the rowdiff engine (C16).
#include "ppl_header.hh"
#include <iostream>
#include <sstream>
#include <unistd.h>
#include <sys/wait.h>
using namespace Parma_Polyhedra_Library;
using namespace Parma_Polyhedra_Library::IO_Operators;
static Variable A(0), B(1), C(2);
int main() {
  std::cout << "--- D1 truncating DENSE -> SPARSE copy keeps the cut-off coefficients\n";
  { Linear_Expression d(DENSE); d += A; d += 2*B; d += 3*C;
    Linear_Expression s(d, 1, SPARSE), dd(d, 1, DENSE);
    Expression_Adapter_Transparent<Linear_Expression> as(s), ad(dd);
    std::cout << "  dense->dense : " << dd << "  last_nonzero=" << ad.last_nonzero() << "\n";
    std::cout << "  dense->sparse: " << s << "  last_nonzero=" << as.last_nonzero() << "  space_dimension=" << s.space_dimension() << "  compare=" << compare(s, dd) << "\n";
    Constraint c(2*A - 4*B >= 0); Constraint cd(c, DENSE); Constraint t(cd, 1, SPARSE), u(cd, 1, DENSE);   // both are  2*A >= 0 ... or are they
    std::cout << "  Constraint(dense, 1, SPARSE): " << t << " equal_to dense twin: " << t.is_equal_to(u) << "\n"; }
  std::cout << "--- D2 all_zeroes_except(vars, 0, 0): empty range, DENSE says false\n";
  { Linear_Expression d(DENSE), s(SPARSE); d += 5; s += 5; Variables_Set vs;
    Expression_Adapter_Transparent<Linear_Expression> ad(d), as(s);
    std::cout << "  dense " << ad.all_zeroes_except(vs, 0, 0) << "  sparse " << as.all_zeroes_except(vs, 0, 0) << "\n"; }
  std::cout << "--- D3 linear_combine(y, c1, c2) with y of lower dimension: tail of *this not scaled by c1\n";
  { for (int r = 0; r < 2; ++r) { Linear_Expression x(r ? SPARSE : DENSE); x += A; x += B; Linear_Expression y(A); x.linear_combine(y, 2, 1); std::cout << "  " << (r ? "sparse" : "dense") << ": (A + B).linear_combine(A, 2, 1) = " << x << "   (documented: *this*c1 + y*c2 = 3*A + 2*B)\n"; }
    Sparse_Row x(3); x.insert(0, Coefficient(1)); x.insert(2, Coefficient(1)); Dense_Row yd(1); yd[0] = 1; Sparse_Row ys(yd); Sparse_Row x2(x);
    linear_combine(x, yd, Coefficient(2), Coefficient(1)); linear_combine(x2, ys, Coefficient(2), Coefficient(1));
    std::cout << "  rows: linear_combine(Sparse x, Dense y): x[2] = " << x.get(2) << "   linear_combine(Sparse x, Sparse y): x[2] = " << x2.get(2) << "\n"; }
  std::cout << "--- D4 linear_combine_lax(y, 0, c2), SPARSE receiver, DENSE argument: zeroes get stored\n";
  { Linear_Expression x(SPARSE); x += A; Linear_Expression y(DENSE); y += 3*C; x.linear_combine_lax(y, 0, 2);
    std::cout << "  x = " << x << "  OK() = " << x.OK() << "\n";
    Linear_Expression z(SPARSE); z += A; z += B; Linear_Expression w(DENSE); w.set_space_dimension(2); z.linear_combine_lax(w, 0, 5);
    std::cout << "  (A + B).linear_combine_lax(0-expression, 0, 5) = " << z << "  is_zero() = " << z.is_zero() << "  all_homogeneous_terms_are_zero() = " << z.all_homogeneous_terms_are_zero() << "\n"; }
  std::cout << "--- D5 copy with another space dimension misplaces the last column (divisor / epsilon)\n";
  { Grid_Generator g = parameter(3*B, 2); Grid_Generator h(g, 4); std::cout << "  Grid_Generator(parameter(3*B, 2), 4): " << h << " divisor " << h.divisor() << " OK " << h.OK() << "\n";
    Constraint c(A > 0); Constraint c3(c, 3); std::cout << "  Constraint(A > 0, 3): " << c3 << "  is_strict " << c3.is_strict_inequality() << " type " << c3.type() << "\n";
    Generator p = closure_point(A, 2); Generator p3(p, 3); std::cout << "  Generator(closure_point(A, 2), 3): " << p3 << "\n"; }
  std::cout << "--- D6 aliased operands (C13)\n";
  { Linear_Expression d(DENSE); d += A; d += 2; d.linear_combine(d, 3, 4); std::cout << "  dense  e.linear_combine(e, 3, 4) with e = A + 2: " << d << "   (e*3 + e*4 = 7*A + 14)\n";
    fflush(0); pid_t pid = fork(); if (pid == 0) { int fd = open("/dev/null", 1); dup2(fd, 2); Linear_Expression s(SPARSE); s += A; s += 2*B; s += 3*C; s -= s; _exit(s.is_zero() ? 0 : 3); }
    int st = 0; waitpid(pid, &st, 0); std::cout << "  sparse e -= e with e = A + 2*B + 3*C: child " << (WIFSIGNALED(st) ? "killed by signal" : "exit code") << " " << (WIFSIGNALED(st) ? WTERMSIG(st) : WEXITSTATUS(st)) << "  (ASan: heap-use-after-free in Sparse_Row::linear_combine)\n"; }
  return 0;
}
