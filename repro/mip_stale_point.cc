#include "ppl_header.hh"
#include <iostream>
using namespace Parma_Polyhedra_Library;
using namespace Parma_Polyhedra_Library::IO_Operators;
int main() {
  Variable A(0), B(1), C(2), D(3);
  Constraint_System cs; cs.insert(A >= 0); cs.insert(-A >= -7); cs.insert(B >= 0); cs.insert(-B >= -5); cs.insert(-7*A - 3*B >= -14);
  Variables_Set iv; iv.insert(A); iv.insert(B);
  MIP_Problem m(2, cs.begin(), cs.end(), iv, -9*A - 4*B, MINIMIZATION);
  m.set_control_parameter(MIP_Problem::PRICING_STEEPEST_EDGE_FLOAT);
  m.add_space_dimensions_and_embed(2);
  Coefficient n, d; m.optimal_value(n, d); std::cout << n << "/" << d << " OK=" << m.OK() << "\n";
  m.add_constraint(B >= 0);
  m.optimal_value(n, d); std::cout << n << "/" << d << " OK=" << m.OK() << "\n";
  std::cout << m.is_satisfiable() << " OK=" << m.OK() << "\n";
  m.set_objective_function(C);
  std::cout << m.feasible_point() << " OK=" << m.OK() << "\n";
  m.add_constraint(-5*B - 5*C >= -1);
  m.set_objective_function(Linear_Expression(0));
  std::cout << m.solve() << " OK=" << m.OK() << "\n";
  m.ascii_dump(std::cout);
}
