#include "ppl_header.hh"
#include "interfaces/interfaced_boxes.hh"
#include <iostream>
#include <cfenv>
using namespace Parma_Polyhedra_Library; using namespace Parma_Polyhedra_Library::IO_Operators;
int main() {
  std::cout << "fegetround=" << fegetround() << " FE_UPWARD=" << FE_UPWARD << std::endl;
  volatile double x = 27670116110564327424.0, one = 1.0; volatile double r = one - x; printf("%.20g\n", (double) r);
  double tb = 1.0, ta = 1.0, tx = 27670116110564327424.0;
  Result res = sub_mul_assign_r(tb, ta, tx, ROUND_UP); printf("sub_mul ROUND_UP: %.20g res=%d\n", tb, (int) res);
  tb = 1.0; res = sub_mul_assign_r(tb, ta, tx, ROUND_DOWN); printf("sub_mul ROUND_DOWN: %.20g res=%d\n", tb, (int) res);
  Variable A(0), B(1);
  Double_Box d(2); d.add_constraint(A > Coefficient("27670116110564327424")); d.propagate_constraint(-A - B > -1); std::cout << "double: " << d.constraints() << std::endl;
  Double_Box e(2); e.add_constraint(A > Coefficient("27670116110564327424")); e.propagate_constraint(A + B < 1); std::cout << "double2: " << e.constraints() << std::endl;
  return 0;
}
