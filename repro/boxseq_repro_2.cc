#include "ppl_header.hh"
#include "interfaces/interfaced_boxes.hh"
#include <iostream>
using namespace Parma_Polyhedra_Library; using namespace Parma_Polyhedra_Library::IO_Operators;
int main(int argc, char** argv) {
  int t = argc > 1 ? atoi(argv[1]) : 0; Variable A(0), B(1), C(2);
  if (t == 1) {
    Float_Box b(2); b.add_constraint(3 * A <= 2); Float_Box u(2);
    b.difference_assign(u); b.ascii_dump(std::cout); std::cout << "empty=" << b.is_empty() << " " << b.constraints() << std::endl;
    Float_Box b2(2); b2.add_constraint(3 * A <= 2); b2.add_constraint(A >= 0); b2.difference_assign(u); b2.ascii_dump(std::cout); std::cout << "empty=" << b2.is_empty() << std::endl;
    Rational_Box r(2); r.add_constraint(3 * A <= 2); Rational_Box ru(2); r.difference_assign(ru); r.ascii_dump(std::cout); std::cout << "rat empty=" << r.is_empty() << std::endl;
  }
  if (t == 2) {
    Generator_System gs; gs.insert(point(0 * A)); gs.insert(closure_point(-Coefficient("2722258935367507707706996859454145691649") * A, 2)); gs.insert(point(2 * A, 3));
    Float_Box b(gs); b.ascii_dump(std::cout); Float_Box u(1);
    std::cout << "u.contains(b)=" << u.contains(b) << std::endl;
    b.difference_assign(u); b.ascii_dump(std::cout); std::cout << "empty=" << b.is_empty() << std::endl;
    Float_Box c(1); c.add_constraint(A > -Coefficient("2722258935367507707706996859454145691649")); c.add_constraint(3 * A <= 2); c.ascii_dump(std::cout);
    std::cout << "u.contains(c)=" << u.contains(c) << " c.is_universe=" << c.is_universe() << " constraints: " << c.constraints() << std::endl;
  }
  if (t == 3) {
    Float_Box b(2); b.add_constraint(A > Coefficient("27670116110564327424")); b.add_constraint(A < Coefficient("27670118309587582976"));
    b.ascii_dump(std::cout);
    b.refine_with_constraint(-A - B > -1); b.ascii_dump(std::cout); std::cout << b.constraints() << std::endl;
    Double_Box d(2); d.add_constraint(A > Coefficient("27670116110564327424")); d.refine_with_constraint(-A - B > -1); std::cout << "double: " << d.constraints() << std::endl;
  }
  if (t == 4) { // int64 box from a BD shape over double with a bound 2^63
    BD_Shape<double> s(1); s.add_constraint(A == Coefficient("9223372036854775808")); Int64_Box b(s); std::cout << b.constraints() << std::endl;
    Rational_Box r(1); r.add_constraint(A == Coefficient("9223372036854775808")); Int64_Box b2(r); std::cout << b2.constraints() << std::endl;
    Int64_Box b3(1); b3.add_constraint(A == Coefficient("9223372036854775808")); std::cout << b3.constraints() << " empty=" << b3.is_empty() << std::endl; }
  return 0;
}
