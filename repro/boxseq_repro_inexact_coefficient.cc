#include "ppl_header.hh"
#include "interfaces/interfaced_boxes.hh"
#include <iostream>
using namespace Parma_Polyhedra_Library;
using namespace Parma_Polyhedra_Library::IO_Operators;
int main() {
  Variable A(0), B(1);
  Double_Box b(2);
  b.add_constraint(A == 3);
  mpz_class h("9007199254740993"); // 2^53+1
  b.refine_with_constraint(B - Coefficient(h)*A >= 0);
  Coefficient n, d; bool closed;
  bool has = b.has_lower_bound(B, n, d, closed);
  std::cout << has << " " << n << "/" << d << " closed=" << closed << "  exact bound 27021597764222979\n";
  return (has && n > Coefficient("27021597764222979")*d) ? 1 : 0;
}
