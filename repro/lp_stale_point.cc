#include "ppl_header.hh"
#include <iostream>
using namespace Parma_Polyhedra_Library;
using namespace Parma_Polyhedra_Library::IO_Operators;
int main() {
  Variable A(0), B(1), C(2);
  Constraint_System cs; cs.insert(-3*A + 2*C >= -4);
  MIP_Problem m(3, cs, -2*A - C, MINIMIZATION);
  m.set_optimization_mode(MAXIMIZATION);
  m.add_constraint(-A + B + 366160*C >= 5);
  std::cout << m.solve() << "\n";
  std::cout << m.solve() << " OK=" << m.OK() << "\n";
  Constraint_System cs2; cs2.insert(Linear_Expression(0) >= 0); cs2.insert(-A - 3*B + 3*C >= 4); cs2.insert(A >= 0);
  m.add_constraints(cs2);
  Generator g = m.feasible_point();
  std::cout << g << " OK=" << m.OK() << "\n";
  for (MIP_Problem::const_iterator i = m.constraints_begin(); i != m.constraints_end(); ++i) {
    Coefficient v = 0; v = i->inhomogeneous_term() * g.divisor();
    for (dimension_type d = 0; d < 3; ++d) v += i->coefficient(Variable(d)) * g.coefficient(Variable(d));
    std::cout << "  " << *i << " -> " << v << (v < 0 ? "  VIOLATED" : "") << "\n";
  }
}
