// Standalone reproducers for the MIP_Problem defects found by mipdiff (plain PPL client code).
#include "ppl_header.hh"
#include <iostream>
using namespace Parma_Polyhedra_Library;
using namespace Parma_Polyhedra_Library::IO_Operators;
static const char* sname(MIP_Problem_Status s) { return s == UNFEASIBLE_MIP_PROBLEM ? "UNFEASIBLE" : s == UNBOUNDED_MIP_PROBLEM ? "UNBOUNDED" : "OPTIMIZED"; }
struct TO : virtual public std::exception, public Throwable { void throw_me() const { throw *this; } int priority() const { return 0; } };
static void to() { throw TO(); }
int main(int argc, char** argv) {
  int t = atoi(argv[1]); Variable A(0), B(1);
  Variables_Set iA; iA.insert(0); Variables_Set iAB; iAB.insert(0); iAB.insert(1); Variables_Set iB; iB.insert(1);
  if (t == 1) {  // D1: unbounded MIP reported unfeasible
    MIP_Problem m(1); m.add_constraint(2*A >= 1); m.add_to_integer_space_dimensions(iA); m.set_objective_function(A);
    std::cout << "max A s.t. 2A>=1, A integer: solve() = " << sname(m.solve()) << " (expected UNBOUNDED); is_satisfiable() = " << m.is_satisfiable() << "\n";
  }
  if (t == 2) {  // D2: is_satisfiable() (const) leaves branching constraints in the problem
    MIP_Problem m(1); m.add_constraint(A >= -1); m.add_constraint(A <= 1); m.add_constraint(2*A >= -1); m.add_to_integer_space_dimensions(iA);
    std::cout << "constraints before: " << (m.constraints_end() - m.constraints_begin());
    bool s = m.is_satisfiable();
    std::cout << "; is_satisfiable() = " << s << "; constraints after: " << (m.constraints_end() - m.constraints_begin()) << " :";
    for (MIP_Problem::const_iterator i = m.constraints_begin(); i != m.constraints_end(); ++i) std::cout << " [" << *i << "]"; std::cout << "\n";
  }
  if (t == 3) {  // D3a: OK() false after add_to_integer_space_dimensions on a solved LP with fractional cached point
    MIP_Problem m(1); m.add_constraint(2*A >= 1); m.add_constraint(2*A <= 1); std::cout << sname(m.solve()) << " at " << m.optimizing_point();
    m.add_to_integer_space_dimensions(iA); std::cout << "; after add_to_integer_space_dimensions OK() = " << m.OK() << "\n";
    m.add_constraint(A >= 0);   // with --enable-assertions: PPL_ASSERT(OK()) fails here
    std::cout << "solve() = " << sname(m.solve()) << ", OK() = " << m.OK() << "\n";
  }
  if (t == 4) {  // D3b: OK() throws
    MIP_Problem m(1); m.solve(); m.add_space_dimensions_and_embed(1); m.add_to_integer_space_dimensions(iB);
    try { std::cout << "OK() = " << m.OK() << "\n"; } catch (const std::exception& e) { std::cout << "OK() throws: " << e.what() << "\n"; }
  }
  if (t == 5 || t == 6) {  // D4: branch&bound does not terminate (logical-time watchdog)
    MIP_Problem m(2); if (t == 5) m.add_constraint(2*A - 2*B == 1); else m.add_constraint(-3*A + 3*B >= 2); m.add_to_integer_space_dimensions(iAB);
    try { Threshold_Watcher<Weightwatch_Traits> ww(strtoull(argv[2], 0, 10), to); std::cout << "is_satisfiable() = " << m.is_satisfiable() << "\n"; }
    catch (const TO&) { std::cout << (t == 5 ? "2A-2B=1" : "-3A+3B>=2 (satisfiable: A=0,B=1)") << ", A,B integer: is_satisfiable() still running after " << argv[2] << " weight units\n"; }
  }
  return 0;
}
