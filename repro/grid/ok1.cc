#include "ppl_header.hh"
#include <iostream>
using namespace Parma_Polyhedra_Library; using namespace Parma_Polyhedra_Library::IO_Operators;
int main() {
  Variable A(0), B(1);
  Grid g(2, EMPTY);
  g.add_grid_generator(grid_point(3*A - B, 2));
  g.add_grid_generator(grid_line(50*A + 3*B));
  g.add_grid_generator(parameter(-3*B));
  g.add_grid_generator(grid_line(2*A - 21*B));
  std::cout << "OK before: " << g.OK() << "\n";
  (void) g.congruences();
  std::cout << "OK after congruences(): " << g.OK() << "\n";
  g.ascii_dump(std::cout);
}
