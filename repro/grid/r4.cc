#include "ppl_header.hh"
#include <iostream>
using namespace Parma_Polyhedra_Library; using namespace Parma_Polyhedra_Library::IO_Operators;
int main() {
  Variable A(0), B(1), C(2);
  Grid_Generator_System gs; gs.insert(grid_point(B - 2*C, 2)); gs.insert(parameter(-4*C, 3));
  Grid x(gs); x.affine_image(C, Linear_Expression(-1), -2);
  (void) x.is_empty(); (void) x.is_universe(); (void) x.is_discrete(); (void) x.is_bounded();
  (void) x.relation_with((B - C %= 0) / 6);
  Grid y(3); y.add_congruence((3*A %= 0) / 6); y.add_congruence((Linear_Expression(0) %= 2) / 6);
  x.ascii_dump(std::cout); y.ascii_dump(std::cout);
  x.difference_assign(y);
  std::cout << "D16 x \\ y = " << x.grid_generators() << " (y is empty: expected x unchanged, the point (0,1/2,1/2))\n";
}
