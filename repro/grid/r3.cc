#include "ppl_header.hh"
#include <iostream>
using namespace Parma_Polyhedra_Library; using namespace Parma_Polyhedra_Library::IO_Operators;
int main() {
  Variable A(0), B(1), C(2);
  { Congruence_System cgs0; Grid g(cgs0, Recycle_Input()); g.add_space_dimensions_and_embed(1); g.generalized_affine_image(A, EQUAL, Linear_Expression(4), -3, 0);
    std::cout << "gens after image: " << g.grid_generators() << "\n";
    (void) g.affine_dimension(); g.ascii_dump(std::cout);
    Grid_Generator_System gs; gs.insert(grid_point()); gs.insert(grid_point());
    g.add_grid_generators(gs);
    g.ascii_dump(std::cout);
    Grid c1(g), c2(g);
    std::cout << "D15 gens: " << c1.grid_generators() << "   cgs: " << c2.congruences() << "  (expected 3*A = 0 (mod 4))\n"; }
  { Grid x(1, EMPTY); x.add_grid_generator(grid_point(A, 2));
    Grid y(1); y.add_congruence((A %= 0) / 6); y.add_congruence((Linear_Expression(0) %= 2) / 6);
    x.difference_assign(y); std::cout << "D16 {1/2} \\ empty(unmarked) = " << x.grid_generators() << " (expected p(A/2))\n"; }
}
