#include "ppl_header.hh"
#include <iostream>
using namespace Parma_Polyhedra_Library; using namespace Parma_Polyhedra_Library::IO_Operators;
int main() {
  Variable A(0), B(1), C(2);
  Coefficient n, d, fn, fd, vn, vd; bool m;
  { // D1 maximize ignores the divisor for the inhomogeneous term
    Grid g(1, EMPTY); g.add_grid_generator(grid_point(A, 2));
    g.maximize(A + 1, n, d, m); std::cout << "D1 max(A+1) on {A=1/2}: " << n << "/" << d << " (expected 3/2)\n"; }
  { // D2 zero-dimensional maximize / frequency ignore the constant expression
    Grid g(0); g.maximize(Linear_Expression(4), n, d, m); std::cout << "D2 max(4) in dim 0: " << n << "/" << d << " (expected 4)\n";
    g.frequency(Linear_Expression(3), fn, fd, vn, vd); std::cout << "D2 frequency(3) in dim 0: val " << vn << "/" << vd << " (expected 3)\n"; }
  { // D3 frequency: value not closest to zero
    Grid g(1); g.add_congruence((A %= 3) / 4);
    g.frequency(Linear_Expression(A), fn, fd, vn, vd); std::cout << "D3 frequency(A) on {A=3 mod 4}: val " << vn << "/" << vd << " freq " << fn << "/" << fd << " (closest to zero is -1)\n"; }
  { // D4 frequency touches its outputs although it returns false
    Grid g(1); fn = 777; bool r = g.frequency(Linear_Expression(A), fn, fd, vn, vd); std::cout << "D4 frequency(A) on universe: returns " << r << " freq_n now " << fn << " (expected untouched 777)\n"; }
  { // D5 constrains() answers true for a variable that is a line of the generator system
    Grid g(2, EMPTY); g.add_grid_generator(grid_point(0*B)); g.add_grid_generator(grid_line(A)); g.add_grid_generator(parameter(B));
    std::cout << "D5 constrains(A) on {B integer, A free}: " << g.constrains(A) << " (expected 0)\n"; }
  { // D6 relation_with(Congruence) ignores the divisor of the point
    Grid g(1, EMPTY); g.add_grid_generator(grid_point(A, 2));
    std::cout << "D6 {A=1/2} vs A = 0 (mod 1): " << g.relation_with((A %= 0) / 1) << " (expected IS_DISJOINT)\n";
    Grid h(1, EMPTY); h.add_grid_generator(grid_point(A, 2)); Grid y(1); y.add_congruence((A %= 0) / 1);
    h.difference_assign(y); std::cout << "D6b {A=1/2} \\ {A integer} = " << h.grid_generators() << " (expected the point A=1/2)\n"; }
  { // D7 relation_with(strict Constraint): epsilon coefficient enters the scalar product
    Grid g(1, EMPTY); g.add_grid_generator(grid_point(A));
    std::cout << "D7 {A=1} vs A > 0: " << g.relation_with(A > 0) << " (expected IS_INCLUDED);  vs 0 > -1: " << g.relation_with(Linear_Expression(0) > -1) << " (expected IS_INCLUDED)\n"; }
  { // D8 relation_with(Constraint) rewrites the generator system of a const object
    Grid g(3, EMPTY); g.add_grid_generator(grid_point(-3*A - C, 3)); g.add_grid_generator(parameter(-4*A + 4*B, 3)); g.add_grid_generator(grid_point(4*A - 4*C, 3)); g.add_grid_generator(parameter(-4*A - 3*C, 2));
    Grid before(g);
    (void) g.relation_with(Linear_Expression(0) >= -1);
    Grid c1(g), c2(g); Grid fromc(c1.congruences()); Grid fromg(c2.grid_generators());
    std::cout << "D8 after relation_with(0 >= -1): OK " << g.OK() << "; grid(congruences()) == grid(generators()): " << (fromc == fromg) << "; equals value before: " << (fromg == before) << "/" << (fromc == before) << " (expected 1 1 1/1)\n"; }
  { // D9 generalized_affine_preimage with modulus, invertible expression: modulus not rescaled
    Grid g(1); g.add_congruence((A %= 0) / 1);   // A integer
    g.generalized_affine_preimage(A, EQUAL, 2*A, 3, 2);   // { v : exists integer w, w = 2v/3 (mod 2) }  =  (3/2) Z
    std::cout << "D9 preimage of Z under A' = 2A/3 (mod 2): " << g.grid_generators() << " (expected p(0), q(3A/2))\n"; }
  { // D10 add_space_dimensions_and_project on the 0-dim universe
    Grid g(0); g.add_space_dimensions_and_project(1); std::cout << "D10 project 0-dim universe into 1 dim: " << g.congruences() << " (expected A = 0)\n"; }
  { // D11 simplify_using_context_assign: empty receiver, universe context
    Grid x(1, EMPTY), y(1); bool r = x.simplify_using_context_assign(y); std::cout << "D11 empty.simplify(universe): returns " << r << " result " << x.congruences() << " (meet-preserving result must be empty)\n"; }
  { // D12 relation_with(Grid_Generator) on an empty grid not yet marked empty
    Grid g(1); g.add_congruence((A %= 0) / 2); g.add_congruence((A %= 1) / 2);
    std::cout << "D12 empty(unmarked).relation_with(parameter 2A): " << g.relation_with(parameter(2*A)) << " (a marked empty grid answers NOTHING)\n"; }
  { // D13 simplify of generators not idempotent -> OK() false
    Grid g(2, EMPTY); g.add_grid_generator(grid_point(3*A - B, 2)); g.add_grid_generator(grid_line(50*A + 3*B)); g.add_grid_generator(parameter(-3*B)); g.add_grid_generator(grid_line(2*A - 21*B));
    (void) g.congruences(); std::cout << "D13 OK() after congruences(): " << g.OK() << " (expected 1)\n"; }
  return 0;
}
