#include "ppl_header.hh"
#include <iostream>
using namespace Parma_Polyhedra_Library; using namespace Parma_Polyhedra_Library::IO_Operators;
int main() {
  Variable A(0), B(1);
  Coefficient fn, fd, vn, vd;
  { Grid g(1, EMPTY); g.add_grid_generator(grid_point(3*A)); g.add_grid_generator(parameter(4*A));
    g.frequency(Linear_Expression(A), fn, fd, vn, vd); std::cout << "D3 frequency(A) on {3 + 4k}: val " << vn << "/" << vd << " freq " << fn << "/" << fd << " (closest to zero is -1)\n";
    g.frequency(A + 4, fn, fd, vn, vd); std::cout << "D3 frequency(A+4) on {3 + 4k}: val " << vn << "/" << vd << " (values 7+4k: closest to zero is -1)\n"; }
  { Grid g(2, EMPTY); g.add_grid_generator(grid_point(A + B));
    std::cout << "D7 {(1,1)} vs A > 0: " << g.relation_with(A > 0) << " (expected IS_INCLUDED)\n";
    std::cout << "D7 {(1,1)} vs 0 > 1: " << g.relation_with(Linear_Expression(0) > 1) << " (expected IS_DISJOINT)\n"; }
  { // D14 add generators to an empty grid that is not marked empty -> out-of-bounds access
    Grid g(1); g.add_congruence((A %= 0) / 2); g.add_congruence((A %= 1) / 2);
    Grid_Generator_System gs; gs.insert(grid_point(A));
    std::cout << "D14 adding a point to an unmarked empty grid..." << std::endl;
    g.add_grid_generators(gs); std::cout << g.grid_generators() << " (expected p(A))\n"; }
}
