#include "ppl_header.hh"
#include <iostream>
using namespace Parma_Polyhedra_Library; using namespace Parma_Polyhedra_Library::IO_Operators;
int main() {
  Variable A(0), B(1);
  Congruence_System cgs; cgs.insert((2*A + 2*B %= -7) / 1); cgs.insert((17*B %= -2) / 5); cgs.insert((B %= -1) / 4);
  Grid x(cgs);
  Grid y(2, EMPTY); y.add_grid_generator(grid_point(3*A + B, 2)); y.add_grid_generator(grid_point(-2*A - 3*B)); y.add_grid_generator(grid_point(16*A + 2*B, 3)); y.add_grid_generator(grid_point(B, 2));
  x.time_elapse_assign(y);
  std::cout << "x contains y: " << x.contains(y) << "  y contains x: " << y.contains(x) << "\n";
  x.ascii_dump(std::cout); y.ascii_dump(std::cout);
  std::cout << "D17 x == y: " << (x == y) << " (expected 1)\n";
}
