#include "ppl_header.hh"
#include <iostream>
using namespace Parma_Polyhedra_Library; using namespace Parma_Polyhedra_Library::IO_Operators;
int main() {
  Variable A(0), B(1), C(2);
  Grid_Generator_System gs; gs.insert(grid_point(A - 4*B)); gs.insert(parameter(2*A - 3*B + 3*C));
  Grid g(gs);
  Coefficient n, d; bool m;
  (void) g.minimize(-3*A + 848184*B + 2*C, n, d, m);   // minimizes the generators
  g.ascii_dump(std::cout);
  g.remove_higher_space_dimensions(1);
  std::cout << "OK: " << g.OK() << "\n" << g.grid_generators() << "\n";
}
