// Reproducer for "Watchdog bookkeeping is not signal-safe" (DESIGN §4 item 13) with a virtual ITIMER_PROF.
// g++ -std=gnu++17 -I/repo -I/repo/src repro13.cc /verif/build/san/libppl.a -fsanitize=address,undefined -lgmpxx -lgmp
#include "ppl_header.hh"
#include <csignal>
#include <cstdio>
#include <sys/time.h>
using namespace Parma_Polyhedra_Library;
static long long now = 0, armed = -1; static bool deliver_in_next_getitimer = false;
static void expire() { armed = -1; raise(SIGPROF); }
static void advance(long long us) { while (armed >= 0 && armed <= now + us) { us -= armed - now; now = armed; expire(); } now += us; }
extern "C" int setitimer(int, const struct itimerval* nv, struct itimerval*) {
  long long us = nv->it_value.tv_sec * 1000000LL + nv->it_value.tv_usec; armed = us ? now + us : -1; return 0; }
extern "C" int getitimer(int, struct itimerval* cv) {
  if (deliver_in_next_getitimer && armed >= 0) { deliver_in_next_getitimer = false; now = armed; expire(); }  // the 10 remaining us elapse here
  long long rem = armed < 0 ? 0 : armed - now; cv->it_value.tv_sec = rem / 1000000; cv->it_value.tv_usec = rem % 1000000;
  cv->it_interval.tv_sec = cv->it_interval.tv_usec = 0; return 0; }
static void fa() { std::printf("A (created t=0, 100 cs)      fired at t=%lld us\n", now); }
static void fb() { std::printf("B (created t=999990, 50 cs)  fired at t=%lld us\n", now); }
int main() {
  Watchdog a(100, fa);
  advance(999990);
  deliver_in_next_getitimer = true;     // A's expiry arrives inside B's constructor (critical section)
  Watchdog b(50, fb);
  advance(3000000);
  return 0;
}
