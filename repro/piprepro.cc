// usage: piprepro "dim=4 params=C,D [big=D] [cut=first|deepest|all] [pivot=first|max_column]" step...
//  steps:  "c <constraint>; <constraint>..."   add_constraint each (before first solve they form the initial problem)
//          "cs <constraint>; ..."              add_constraints(Constraint_System)
//          "embed V P"   "toparams F,G"   "big X"   "solve"   "print"   "eval C=1,D=2"  "copy" "assign" "dumpload"
#include "ppl_header.hh"
#include <iostream>
#include <sstream>
#include <gmpxx.h>
using namespace Parma_Polyhedra_Library;
using namespace Parma_Polyhedra_Library::IO_Operators;
static int dimof(const std::string& v) { return v[0] - 'A'; }
static Constraint parse_con(std::string t) {
  Linear_Expression e; int rel = 0; size_t p;
  if ((p = t.find(">=")) != std::string::npos) rel = 0; else if ((p = t.find(">")) != std::string::npos) rel = 2; else { p = t.find("="); rel = 1; }
  std::string lhs = t.substr(0, p); std::string clean; for (char c : lhs) if (c != ' ') clean += c;
  size_t i = 0;
  while (i < clean.size()) {
    int sg = 1; if (clean[i] == '+') ++i; else if (clean[i] == '-') { sg = -1; ++i; }
    long k = 1; bool hasnum = false; if (isdigit(clean[i])) { k = 0; hasnum = true; while (i < clean.size() && isdigit(clean[i])) k = k * 10 + (clean[i++] - '0'); }
    if (i < clean.size() && clean[i] == '*') ++i;
    if (i < clean.size() && isalpha(clean[i])) { e += (sg * k) * Variable(clean[i] - 'A'); ++i; } else if (hasnum) e += sg * k;
  }
  return rel == 0 ? Constraint(e >= 0) : rel == 1 ? Constraint(e == 0) : Constraint(e > 0);
}
static std::vector<Constraint> parse_list(const std::string& s) { std::vector<Constraint> v; std::istringstream in(s); std::string t; while (std::getline(in, t, ';')) if (t.find_first_not_of(' ') != std::string::npos) v.push_back(parse_con(t)); return v; }
static mpz_class ev(const Linear_Expression& e, const std::vector<mpz_class>& env) { mpz_class s = e.inhomogeneous_term(); for (dimension_type i = 0; i < e.space_dimension(); ++i) { if (e.coefficient(Variable(i)) != 0) { if (i >= env.size()) { std::cout << "[undeclared " << Variable(i) << "]"; continue; } s += mpz_class(e.coefficient(Variable(i))) * env[i]; } } return s; }
static void eval(const PIP_Problem& p, std::vector<mpz_class> env) {
  const PIP_Tree_Node* n = p.solution();
  for (;;) {
    if (!n) { std::cout << "  => bottom\n"; return; }
    for (auto ap = n->art_parameter_begin(); ap != n->art_parameter_end(); ++ap) { mpz_class num = ev(*ap, env), q; mpz_fdiv_q(q.get_mpz_t(), num.get_mpz_t(), mpz_class(ap->denominator()).get_mpz_t()); env.push_back(q); }
    bool all = true; for (auto i = n->constraints().begin(); i != n->constraints().end(); ++i) { mpz_class v = ev(Linear_Expression(i->expression()), env); if (!(i->is_equality() ? v == 0 : i->is_strict_inequality() ? v > 0 : v >= 0)) all = false; }
    if (auto d = n->as_decision()) { n = d->child_node(all); continue; }
    if (!all) { std::cout << "  => bottom\n"; return; }
    std::cout << "  => {"; for (dimension_type v = 0; v < p.space_dimension(); ++v) if (!p.parameter_space_dimensions().count(v)) std::cout << " " << Variable(v) << "=" << ev(n->as_solution()->parametric_values(Variable(v)), env); std::cout << " }\n"; return;
  }
}
int main(int argc, char** argv) {
  std::string hdr = argv[1]; int dim = 0; Variables_Set ps; int big = -1; std::string cut = "first", piv = "first";
  { std::istringstream in(hdr); std::string t; while (in >> t) { size_t e = t.find('='); std::string k = t.substr(0, e), v = t.substr(e + 1);
      if (k == "dim") dim = atoi(v.c_str()); else if (k == "params") { std::istringstream q(v); std::string x; while (std::getline(q, x, ',')) if (!x.empty()) ps.insert(Variable(dimof(x))); } else if (k == "big") big = dimof(v); else if (k == "cut") cut = v; else if (k == "pivot") piv = v; } }
  PIP_Problem* p = 0; std::vector<Constraint> init;
  auto mk = [&]() { if (!p) { p = new PIP_Problem(dim, init.begin(), init.end(), ps); p->set_control_parameter(cut == "first" ? PIP_Problem::CUTTING_STRATEGY_FIRST : cut == "deepest" ? PIP_Problem::CUTTING_STRATEGY_DEEPEST : PIP_Problem::CUTTING_STRATEGY_ALL); p->set_control_parameter(piv == "first" ? PIP_Problem::PIVOT_ROW_STRATEGY_FIRST : PIP_Problem::PIVOT_ROW_STRATEGY_MAX_COLUMN); if (big >= 0) p->set_big_parameter_dimension(big); } };
  for (int a = 2; a < argc; ++a) {
    std::string s = argv[a]; std::string cmd = s.substr(0, s.find(' ')), rest = s.find(' ') == std::string::npos ? "" : s.substr(s.find(' ') + 1);
    std::cout << "# " << s << std::endl;
    if (cmd == "c") { std::vector<Constraint> v = parse_list(rest); if (!p) init.insert(init.end(), v.begin(), v.end()); else for (auto& c : v) p->add_constraint(c); }
    else if (cmd == "cs") { mk(); Constraint_System cs; for (auto& c : parse_list(rest)) cs.insert(c); p->add_constraints(cs); }
    else if (cmd == "embed") { mk(); int v, q; std::istringstream(rest) >> v >> q; p->add_space_dimensions_and_embed(v, q); }
    else if (cmd == "toparams") { mk(); Variables_Set vs; std::istringstream q(rest); std::string x; while (std::getline(q, x, ',')) vs.insert(Variable(dimof(x))); p->add_to_parameter_space_dimensions(vs); }
    else if (cmd == "big") { mk(); p->set_big_parameter_dimension(dimof(rest)); }
    else if (cmd == "solve") { mk(); std::cout << "status=" << (p->solve() == OPTIMIZED_PIP_PROBLEM ? "OPTIMIZED" : "UNFEASIBLE") << " OK=" << p->OK() << std::endl; }
    else if (cmd == "print") { mk(); p->print_solution(std::cout); }
    else if (cmd == "assign") { mk(); PIP_Problem q(1); q = *p; std::cout << "assigned.OK()=" << q.OK() << std::endl; }
    else if (cmd == "swap") { mk(); PIP_Problem q(1); q.m_swap(*p); std::cout << "after m_swap: q.OK()=" << q.OK() << " p.OK()=" << p->OK() << std::endl; q.m_swap(*p); }
    else if (cmd == "dumpload") { mk(); std::stringstream ss; p->ascii_dump(ss); PIP_Problem l; bool ok = l.ascii_load(ss); std::stringstream s2; l.ascii_dump(s2); std::cout << "load=" << ok << " OK=" << l.OK() << " same_text=" << (ss.str() == s2.str()) << std::endl; }
    else if (cmd == "eval") { mk(); std::vector<mpz_class> env(p->space_dimension()); std::istringstream q(rest); std::string x; while (std::getline(q, x, ',')) env[dimof(x)] = mpz_class(x.substr(x.find('=') + 1)); eval(*p, env); }
  }
  delete p; return 0;
}
